#!/bin/sh
# Runs every claimed check (quick tier by default) on the current /repo tree and prints one summary line each.
tier=${1:-quick}
cd /verif
for id in $(python3 -c "import json;print(' '.join(c['property_id'] for c in json.load(open('/verif/MANIFEST.json'))['checks']))"); do
  start=$(date +%s)
  out=$(timeout 3600 ./check $id --tier $tier 2>&1); rc=$?
  end=$(date +%s)
  echo "== $id rc=$rc $((end-start))s: $(echo "$out" | tail -1)"
  echo "$out" | grep -E "^(VIOLATION|KNOWN-FINDING|UNCONFIRMED|VACUOUS|TRANSLATOR-DISAGREEMENT|  INCONCLUSIVE|HARNESS-ERROR)" | cut -c1-300 | head -8
done
