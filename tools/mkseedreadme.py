#!/usr/bin/env python3
# regenerate /verif/seeded/README.md from the meta.json files
import json, glob, os
hdr = open('/verif/seeded/README.md').read().split('| seed |')[0]
rows = []
for d in sorted(glob.glob('/verif/seeded/*/meta.json')):
    name = os.path.basename(os.path.dirname(d))
    m = json.load(open(d))
    caught = 'yes' if m['our_check']['caught'] else 'NO'
    if m.get('status') == 'neutralised':
        caught = 'n/a (neutralised by a fix)'
    hist = m.get('history', 'caught by the check as it was when the change arrived')
    rows.append(f"| {name} | {m['property']} | {caught} | {hist} |")
n = sum(1 for r in rows if 'n/a (neutralised' not in r); c = sum(1 for r in rows if '| yes |' in r)
open('/verif/seeded/README.md', 'w').write(hdr + '| seed | property | caught by /verif/check <property> (quick) | history |\n| --- | --- | --- | --- |\n' + '\n'.join(rows) + f'\n\n{c} of {n} seeded changes are reported by the quick check of their property.\n')
print(c, 'of', n)
