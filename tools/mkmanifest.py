#!/usr/bin/env python3
"""Regenerates /verif/MANIFEST.json from the table below (kept in one place so
claims, bounds and not_applicable reasons stay consistent)."""
import json, os

CLAIMED = {
 # id: (level text, level note, design ref)
}
NA = {}

def load():
    import importlib.util
    spec = importlib.util.spec_from_file_location("claims", os.path.join(os.path.dirname(__file__), "claims.py"))
    m = importlib.util.module_from_spec(spec); spec.loader.exec_module(m)
    return m.CLAIMED, m.NA

def main():
    claimed, na = load()
    checks = []
    for pid in sorted(claimed):
        c = claimed[pid]
        checks.append({
            "property_id": pid,
            "quick_cmd": f"/verif/check {pid} --tier quick",
            "thorough_cmd": f"/verif/check {pid} --tier thorough",
            "evidence_file": f"/verif/evidence/{pid}.json",
            "replay_cmd_template": f"/verif/check {pid} --replay {{path}}",
            "engine": "gosmx",
            "level_claimed": {"category": "model_checking", "text": c["text"], "design_ref": c.get("design", "DESIGN.md section 4 / " + pid)},
            "level_note": c["note"],
            "technique": c.get("technique", "bounded symbolic execution of the Go SSA of /repo (own engine gosmx) with z3 deciding every branch feasibility and assertion; counterexamples replayed concretely and as native go test"),
        })
    ids = [json.loads(l)["id"] for l in open("/verif/properties.jsonl")]
    nal = [{"property_id": p, "reason": na.get(p, "no check built yet in this session (engine support for the code it depends on is still missing); see DESIGN.md")} for p in ids if p not in claimed]
    man = {
        "version": 1,
        "setup_cmd": "cd /verif/engine && GOFLAGS=-mod=mod GOPROXY=off GOSUMDB=off GOTOOLCHAIN=local go build -o /verif/bin/gosmx ./cmd/gosmx",
        "hooks": {
            "guard": "verif",
            "enable": "no hooks in /repo: harnesses are injected with a go/packages overlay (zz_verif_*.go) when the SSA is built, and with `go test -overlay` for native replay",
            "baseline_off_cmd": "cd /repo && go test -vet=off -count=1 -timeout 25m ./...",
            "source_commits": [],
            "add_only": True,
        },
        "engines": [{"name": "gosmx", "path": "/verif/engine", "serves_properties": sorted(claimed), "kind_free_text": "symbolic executor for go/ssa (fork of x/tools go/ssa/interp) emitting SMT-LIB2 bit-vector queries to a long-lived z3; decision-vector path exploration on 16 workers; explicit goroutine scheduler with preemption bound"}],
        "checks": checks,
        "notes": "Every check regenerates its encoding from /repo's working tree (go/packages + go/ssa on each run). Exit 0 = no unlisted violation inside the stated bounds; KNOWN-FINDING lines come from /verif/known_findings.json; exit 2 = harness does not type-check / engine failure (not a verdict). C20: zstd frame conformance and libzstd interop are outside this technique (see DESIGN.md section 6).",
        "not_applicable": nal,
    }
    json.dump(man, open("/verif/MANIFEST.json", "w"), indent=1)
    print("claimed:", sorted(claimed), "n/a:", [x["property_id"] for x in nal])

main()
