#!/bin/bash
# tryseed.sh <Cxx> [tag] : confirm a sub-agent's seeded change (/tmp/seed-Cxx, worktree /tmp/wt-Cxx),
# run our check against it, and file it under /verif/seeded/<Cxx>[-tag]/.
set -u
export GOFLAGS=-mod=mod GOPROXY=off GOSUMDB=off GOTOOLCHAIN=local
id=$1; tag=${2:-}; name=$id${tag:+-$tag}
wt=/tmp/wt-$id$tag; sd=/tmp/seed-$id$tag; out=/verif/seeded/$name
[ -s $sd/patch.diff ] || { echo "no patch"; exit 2; }
mkdir -p $out
cd $wt || exit 2
demo=$(ls $wt/zz_seed_demo_test.go $wt/cmd/desync/zz_seed_demo_test.go 2>/dev/null | head -1)
demodir=$(dirname "$demo")
# 1. with the change: builds, suite passes (TestMountIndex aside), demo fails
go build ./... || { echo "BUILD FAILS"; exit 2; }
suite=$(go test -vet=off -count=1 . ./cmd/desync 2>&1 | grep -E "^--- FAIL" | grep -v "TestMountIndex\|TestSeedDemo" | tr '\n' ' ')
( cd $demodir && go test -vet=off -count=1 -run '^TestSeedDemo$' . >/tmp/seed-demo-with.log 2>&1 ); with=$?
# 2. without the change: demo passes
git stash push -q -- $(git diff --name-only) ; ( cd $demodir && go test -vet=off -count=1 -run '^TestSeedDemo$' . >/tmp/seed-demo-without.log 2>&1 ); without=$?; git stash pop -q
echo "suite-failures-with-change=[$suite] demo-with-change-rc=$with demo-without-change-rc=$without"
# 3. our check against the change applied to /repo
git -C /repo diff --quiet || { echo "/repo dirty"; exit 2; }
git -C /repo apply $sd/patch.diff || { echo "patch does not apply to /repo"; exit 2; }
( cd /verif && timeout 3000 ./check $id --tier ${TIER:-quick} > /tmp/seed-check.log 2>&1 ); rc=$?
git -C /repo checkout -- . ; git -C /repo status --short | head -3
grep -E "^(VIOLATION|KNOWN|UNCONF|  harness=|check )" /tmp/seed-check.log | cut -c1-260 | head -12
cp $sd/patch.diff $out/patch.diff; cp "$demo" $out/demo_test.go; cp $sd/notes.md $out/notes.md 2>/dev/null
caught=false; [ $rc -eq 1 ] && caught=true
python3 - "$id" "$name" "$suite" "$with" "$without" "$rc" "$caught" <<'PY'
import json,sys
id,name,suite,w,wo,rc,caught=sys.argv[1:8]
notes=open(f'/verif/seeded/{name}/notes.md').read() if __import__('os').path.exists(f'/verif/seeded/{name}/notes.md') else ''
log=[l.rstrip()[:300] for l in open('/tmp/seed-check.log') if l.startswith(('VIOLATION','  harness=','check ','UNCONF'))][:12]
meta={"property":id,"breaks":id,"origin":"independent sub-agent given only the property text and a scratch worktree",
 "needs_to_manifest":notes,
 "confirmed":{"builds":True,"suite_failures_with_change_other_than_TestMountIndex":suite.strip(),"demo_fails_with_change":w!="0","demo_passes_without_change":wo=="0"},
 "our_check":{"cmd":f"/verif/check {id} --tier quick (patch applied to /repo, reverted afterwards)","exit":int(rc),"caught":caught=="true","output":log}}
json.dump(meta,open(f'/verif/seeded/{name}/meta.json','w'),indent=1)
print("caught=",caught)
PY
