CLAIMED = {
 "C13": {
  "text": "For every directory fan-out N in the bound the goodbye table written by makeGoodbyeBST is a complete BST over (hash, offset): decided by symbolic execution of makeGoodbyeBST/bst with symbolic offsets/sizes (layout, all N) and symbolic hashes (sorting, small N); z3 discharges the traversal/permutation obligations on every path.",
  "note": "Bounds: layout N<=40 quick / N<=200 thorough with concrete distinct hashes (layout depends only on the order); sorting N<=3 quick / N<=5 thorough with fully symbolic items. Trusted: gosmx engine, z3, the in-harness reference traversal.",
 },
}
NA = {}
