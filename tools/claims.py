CLAIMED = {
 "C13": {
  "text": "For every directory fan-out N in the bound the goodbye table written by makeGoodbyeBST is a complete BST over (hash, offset): decided by symbolic execution of makeGoodbyeBST/bst with symbolic offsets/sizes (layout, all N) and symbolic hashes (sorting, small N); z3 discharges the traversal/permutation obligations on every path.",
  "note": "Bounds: layout N<=40 quick / N<=200 thorough with concrete distinct hashes (layout depends only on the order); sorting N<=3 quick / N<=5 thorough with fully symbolic items. Trusted: gosmx engine, z3, the in-harness reference traversal.",
 },
}
CLAIMED["C19"] = {
  "text": "FormatDecoder.Next (every element type, symbolic size field and body), IndexFromReader and Protocol.ReadMessage are executed symbolically on arbitrary input bytes; every Go run-time check (slice, index, make, nil) and every allocation (<= 2*len(input)+64KiB) is a z3 obligation on every path, and accepted elements must fit in the input.",
  "note": "Bounds: one element (quick) with size in the windows [0,112) u [2^63-24,2^63+24) u [2^64-41,2^64) (thorough: all 2^64 values), body 0/1/8/33 bytes; streams <= 48 bytes (thorough 96); index files <= 152 (thorough 192) bytes behind fixed index/table type fields; protocol messages <= 40 bytes. ArchiveDecoder.Next and HTTPIndexHandler.put are exercised under C18/C05/C15 harnesses, not here. Trusted: engine, z3.",
}
CLAIMED["C04"] = {
  "text": "Index.WriteTo -> bytes -> IndexFromReader executed symbolically for every index of N chunks with symbolic parameters, sizes and IDs: z3 shows the round trip is the identity, that an independent in-harness parser of the caibx layout recovers the same table (header 48, tail offset 48, tail size 16+40N+40, marker), that every strict prefix is rejected, that the digest flag must match the configured digest, and that any accepted table (arbitrary rows) has non-decreasing offsets, no chunk above the maximum and re-encodes byte-identically when its tail fields are canonical.",
  "note": "Bounds: N<=3 chunks quick / <=6 thorough (tables: <=3 / <=5 rows); sizes < 2^40 each, first chunk non-empty (offset 0 is the table terminator). Index stores (local file, stdin/stdout, HTTP, S3) are not encoded: the claim is for the codec they all share. Trusted: engine, z3, in-harness reference parser.",
}
NA = {}
