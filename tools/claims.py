CLAIMED = {
 "C13": {
  "text": "For every directory fan-out N in the bound the goodbye table written by makeGoodbyeBST is a complete BST over (hash, offset): decided by symbolic execution of makeGoodbyeBST/bst with symbolic offsets/sizes (layout, all N) and symbolic hashes (sorting, small N); z3 discharges the traversal/permutation obligations on every path.",
  "note": "Bounds: layout N<=40 quick / N<=200 thorough with concrete distinct hashes (layout depends only on the order); sorting N<=3 quick / N<=5 thorough with fully symbolic items. Trusted: gosmx engine, z3, the in-harness reference traversal.",
 },
}
CLAIMED["C19"] = {
  "text": "FormatDecoder.Next (every element type, symbolic size field and body), IndexFromReader and Protocol.ReadMessage are executed symbolically on arbitrary input bytes; every Go run-time check (slice, index, make, nil) and every allocation (<= 2*len(input)+64KiB) is a z3 obligation on every path, and accepted elements must fit in the input.",
  "note": "Bounds: one element (quick) with size in the windows [0,112) u [2^63-24,2^63+24) u [2^64-41,2^64) (thorough: all 2^64 values), body 0/1/8/33 bytes; streams <= 48 bytes (thorough 96); index files <= 152 (thorough 192) bytes behind fixed index/table type fields; protocol messages <= 40 bytes. ArchiveDecoder.Next and HTTPIndexHandler.put are exercised under C18/C05/C15 harnesses, not here. Trusted: engine, z3.",
}
NA = {}
