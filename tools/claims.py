CLAIMED = {
 "C13": {
  "text": "For every directory fan-out N in the bound the goodbye table written by makeGoodbyeBST is a complete BST over (hash, offset): decided by symbolic execution of makeGoodbyeBST/bst with symbolic offsets/sizes (layout, all N) and symbolic hashes (sorting, small N); z3 discharges the traversal/permutation obligations on every path.",
  "note": "Bounds: layout N<=40 quick / N<=200 thorough with concrete distinct hashes (layout depends only on the order); sorting N<=3 quick / N<=5 thorough with fully symbolic items. Trusted: gosmx engine, z3, the in-harness reference traversal.",
 },
}
CLAIMED["C19"] = {
  "text": "FormatDecoder.Next (every element type, symbolic size field and body), IndexFromReader and Protocol.ReadMessage are executed symbolically on arbitrary input bytes; every Go run-time check (slice, index, make, nil) and every allocation (<= 2*len(input)+64KiB) is a z3 obligation on every path, and accepted elements must fit in the input.",
  "note": "Bounds: one element (quick) with size in the windows [0,112) u [2^63-24,2^63+24) u [2^64-41,2^64) (thorough: all 2^64 values), body 0/1/8/33 bytes; streams <= 48 bytes (thorough 96); index files <= 152 (thorough 192) bytes behind fixed index/table type fields; protocol messages <= 40 bytes. ArchiveDecoder.Next and HTTPIndexHandler.put are exercised under C18/C05/C15 harnesses, not here. Trusted: engine, z3.",
}
CLAIMED["C04"] = {
  "text": "Index.WriteTo -> bytes -> IndexFromReader executed symbolically for every index of N chunks with symbolic parameters, sizes and IDs: z3 shows the round trip is the identity, that an independent in-harness parser of the caibx layout recovers the same table (header 48, tail offset 48, tail size 16+40N+40, marker), that every strict prefix is rejected, that the digest flag must match the configured digest, and that any accepted table (arbitrary rows) has non-decreasing offsets, no chunk above the maximum and re-encodes byte-identically when its tail fields are canonical.",
  "note": "Bounds: N<=3 chunks quick / <=6 thorough (tables: <=3 / <=5 rows); sizes < 2^40 each, first chunk non-empty (offset 0 is the table terminator). Index stores (local file, stdin/stdout, HTTP, S3) are not encoded: the claim is for the codec they all share. Trusted: engine, z3, in-harness reference parser.",
}
CLAIMED["C17"] = {
  "text": "The whole VerifyIndex (stat, worker goroutines, errgroup, batching feeder, fileSeedSegment.Validate) is executed symbolically over a model file system: for symbolic file contents and an independently damaged ID per chunk z3 shows result==nil iff length matches and every chunk hashes to its ID, for every explored goroutine schedule; for larger chunk counts a single damaged chunk at a symbolic position is always noticed, so the batching visits every chunk.",
  "note": "Bounds: all-positions harness K<=3 chunks (thorough 5) x n in {1,2} workers x file length K-1/K/K+1, preemption bound 1 (thorough 2); batching harness (K,n) in {(10..12,1),(19..21,1),(20,2),(21,2),(23,2)} quick, K=6..44 with n=1, selected K with n=2,3,8 and K in {100,119,120,130} thorough, one damaged position symbolic, no forced preemption. Chunks are 1 byte. Block devices (length check skipped by design) are out. Trusted: engine incl. model FS and scheduler, z3, collision-free hash abstraction.",
}
CLAIMED["C09"] = {
  "text": "NewIndexReadSeeker/IndexPos.Seek/Read/findOffset/loadChunk and the FUSE handle's read method are executed symbolically over blobs with symbolic contents and solver-chosen chunk sizes: after Seek(start, p0) and a Read, one (thorough: two) further arbitrary Seek (symbolic 64-bit offset, any whence) or Read is checked against the blob: returned bytes equal blob[pos:pos+n], (0,nil) only for empty buffers, EOF only at the end, failed seeks leave the cursor, store errors surface as errors; the FUSE read returns min(len, Length-off) correct bytes; the empty blob works.",
  "note": "Bounds: 1-2 chunks (thorough 3) of 1-2 bytes, ChunkSizeMax 2 (so all-zero max-size chunks take the null-chunk shortcut when the solver makes the data zero), 3 operations (thorough 4), read buffers 0-3 bytes, FUSE: 2 reads of 0-4 bytes at symbolic offsets inside the blob; store faults at GetChunk call 0 or 1. go-fuse's bridge and the kernel are not encoded. Trusted: engine, z3, collision-free hash abstraction, in-harness stub store.",
}
NA = {}
