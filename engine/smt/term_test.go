package smt

import "testing"

func TestByteAssembly(t *testing.T) {
	c := NewCtx()
	var bs []*Term
	for i := 0; i < 8; i++ {
		bs = append(bs, c.Var("b"+string(rune('0'+i)), 8))
	}
	// little endian decode: b0 | b1<<8 | ...
	r := c.Zext(bs[0], 64)
	for i := 1; i < 8; i++ {
		r = c.Bin(OpBvOr, r, c.Bin(OpBvShl, c.Zext(bs[i], 64), c.Const(uint64(8*i), 64)))
	}
	if r.Op != OpConcat || len(r.A) != 8 {
		t.Fatalf("not a concat: %s", r)
	}
	// encode back: byte(v >> 8k)
	for i := 0; i < 8; i++ {
		x := c.Extract(c.Bin(OpBvLshr, r, c.Const(uint64(8*i), 64)), 7, 0)
		if x != bs[i] {
			t.Fatalf("byte %d: %s", i, x)
		}
	}
}
