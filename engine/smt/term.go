// Package smt is a small hash-consed term DAG over SMT-LIB2 bit-vectors,
// Bool and uninterpreted functions, with an eager simplifier (constant folding
// keeps control flow that does not depend on symbolic data concrete) and a
// printer that emits shared sub-terms once (define-fun).
package smt

import (
	"fmt"
	"math/bits"
	"strconv"
	"strings"
)

type Op uint8

const (
	OpConst Op = iota // V, W (W==0: Bool, V in {0,1})
	OpVar             // Name, W
	OpNot
	OpAnd
	OpOr
	OpIte // A[0] Bool, A[1], A[2] same sort
	OpEq
	OpBvNot
	OpBvNeg
	OpBvAnd
	OpBvOr
	OpBvXor
	OpBvAdd
	OpBvSub
	OpBvMul
	OpBvUdiv
	OpBvUrem
	OpBvSdiv
	OpBvSrem
	OpBvShl
	OpBvLshr
	OpBvAshr
	OpBvUlt
	OpBvUle
	OpBvSlt
	OpBvSle
	OpConcat  // A[0] high .. A[n-1] low
	OpExtract // Hi, Lo
	OpZext    // to W
	OpSext    // to W
	OpApp     // uninterpreted function Name(A...) -> W
)

var opName = map[Op]string{
	OpNot: "not", OpAnd: "and", OpOr: "or", OpIte: "ite", OpEq: "=",
	OpBvNot: "bvnot", OpBvNeg: "bvneg", OpBvAnd: "bvand", OpBvOr: "bvor", OpBvXor: "bvxor",
	OpBvAdd: "bvadd", OpBvSub: "bvsub", OpBvMul: "bvmul", OpBvUdiv: "bvudiv", OpBvUrem: "bvurem",
	OpBvSdiv: "bvsdiv", OpBvSrem: "bvsrem", OpBvShl: "bvshl", OpBvLshr: "bvlshr", OpBvAshr: "bvashr",
	OpBvUlt: "bvult", OpBvUle: "bvule", OpBvSlt: "bvslt", OpBvSle: "bvsle", OpConcat: "concat",
}

// Term is an immutable node. W is the bit width, 0 for Bool.
type Term struct {
	Op     Op
	W      int
	A      []*Term
	V      uint64 // constant value (W <= 64)
	Name   string
	Hi, Lo int
	ID     int
}

func (t *Term) IsConst() bool { return t.Op == OpConst }
func (t *Term) IsBool() bool  { return t.W == 0 }

// Ctx hash-conses terms. One Ctx per explored path.
type Ctx struct {
	tab    map[string]*Term
	n      int
	Vars   []*Term          // declaration order
	Funs   map[string][]int // UF name -> arg widths..., result width last
	FunOrd []string
	True   *Term
	False  *Term
}

func NewCtx() *Ctx {
	c := &Ctx{tab: map[string]*Term{}, Funs: map[string][]int{}}
	c.True = c.mk(&Term{Op: OpConst, W: 0, V: 1})
	c.False = c.mk(&Term{Op: OpConst, W: 0, V: 0})
	return c
}

func (c *Ctx) NumTerms() int { return c.n }

func (c *Ctx) mk(t *Term) *Term {
	var sb strings.Builder
	sb.WriteString(strconv.Itoa(int(t.Op)))
	sb.WriteByte(':')
	sb.WriteString(strconv.Itoa(t.W))
	switch t.Op {
	case OpConst:
		sb.WriteByte(':')
		sb.WriteString(strconv.FormatUint(t.V, 16))
	case OpVar:
		sb.WriteByte(':')
		sb.WriteString(t.Name)
	case OpExtract:
		sb.WriteByte(':')
		sb.WriteString(strconv.Itoa(t.Hi))
		sb.WriteByte(':')
		sb.WriteString(strconv.Itoa(t.Lo))
	case OpApp:
		sb.WriteByte(':')
		sb.WriteString(t.Name)
	}
	for _, a := range t.A {
		sb.WriteByte(',')
		sb.WriteString(strconv.Itoa(a.ID))
	}
	k := sb.String()
	if old, ok := c.tab[k]; ok {
		return old
	}
	c.n++
	t.ID = c.n
	c.tab[k] = t
	return t
}

func mask(w int) uint64 {
	if w >= 64 {
		return ^uint64(0)
	}
	return (uint64(1) << uint(w)) - 1
}

func sext64(v uint64, w int) int64 {
	if w >= 64 {
		return int64(v)
	}
	sh := uint(64 - w)
	return int64(v<<sh) >> sh
}

func (c *Ctx) Bool(b bool) *Term {
	if b {
		return c.True
	}
	return c.False
}

func (c *Ctx) Const(v uint64, w int) *Term {
	if w == 0 {
		return c.Bool(v != 0)
	}
	if w > 64 {
		panic("smt: wide constant")
	}
	return c.mk(&Term{Op: OpConst, W: w, V: v & mask(w)})
}

// Var returns the variable name of width w (0 = Bool); declares it on first use.
func (c *Ctx) Var(name string, w int) *Term {
	before := c.n
	t := c.mk(&Term{Op: OpVar, W: w, Name: name})
	if c.n != before {
		c.Vars = append(c.Vars, t)
	}
	return t
}

func (c *Ctx) Not(a *Term) *Term {
	if a.IsConst() {
		return c.Bool(a.V == 0)
	}
	if a.Op == OpNot {
		return a.A[0]
	}
	return c.mk(&Term{Op: OpNot, A: []*Term{a}})
}

func (c *Ctx) And(a, b *Term) *Term {
	if a.IsConst() {
		if a.V == 0 {
			return c.False
		}
		return b
	}
	if b.IsConst() {
		if b.V == 0 {
			return c.False
		}
		return a
	}
	if a == b {
		return a
	}
	return c.mk(&Term{Op: OpAnd, A: []*Term{a, b}})
}

func (c *Ctx) Or(a, b *Term) *Term {
	if a.IsConst() {
		if a.V != 0 {
			return c.True
		}
		return b
	}
	if b.IsConst() {
		if b.V != 0 {
			return c.True
		}
		return a
	}
	if a == b {
		return a
	}
	return c.mk(&Term{Op: OpOr, A: []*Term{a, b}})
}

func (c *Ctx) Implies(a, b *Term) *Term { return c.Or(c.Not(a), b) }

func (c *Ctx) Ite(cnd, a, b *Term) *Term {
	if cnd.IsConst() {
		if cnd.V != 0 {
			return a
		}
		return b
	}
	if a == b {
		return a
	}
	if a.W == 0 && a.IsConst() && b.IsConst() {
		if a.V != 0 {
			return cnd
		}
		return c.Not(cnd)
	}
	return c.mk(&Term{Op: OpIte, W: a.W, A: []*Term{cnd, a, b}})
}

func (c *Ctx) Eq(a, b *Term) *Term {
	if a.W != b.W {
		panic(fmt.Sprintf("smt: Eq width mismatch %d %d", a.W, b.W))
	}
	if a == b {
		return c.True
	}
	if a.IsConst() && b.IsConst() {
		return c.Bool(a.V == b.V)
	}
	if a.W == 0 {
		if a.IsConst() {
			a, b = b, a
		}
		if b.IsConst() {
			if b.V != 0 {
				return a
			}
			return c.Not(a)
		}
	}
	if a.ID > b.ID {
		a, b = b, a
	}
	// (ite c x y) == k with a constant k: push the comparison into ite chains over constants
	// (table look-ups such as hex digits), which usually folds it away
	if b.IsConst() && a.Op == OpIte && iteOfConsts(a, 0) {
		return c.eqIteConst(a, b)
	}
	if a.IsConst() && b.Op == OpIte && iteOfConsts(b, 0) {
		return c.eqIteConst(b, a)
	}
	// concat of same shapes / zext vs const could be split, keep simple.
	return c.mk(&Term{Op: OpEq, A: []*Term{a, b}})
}

func iteOfConsts(t *Term, depth int) bool {
	if t.IsConst() {
		return true
	}
	if t.Op != OpIte || depth > 300 {
		return false
	}
	return iteOfConsts(t.A[1], depth+1) && iteOfConsts(t.A[2], depth+1)
}

func (c *Ctx) eqIteConst(t, k *Term) *Term {
	if t.IsConst() {
		return c.Bool(t.V == k.V)
	}
	return c.Ite(t.A[0], c.eqIteConst(t.A[1], k), c.eqIteConst(t.A[2], k))
}

func (c *Ctx) cmpIteConst(op Op, t, k *Term, swapped bool) *Term {
	if t.IsConst() {
		if swapped {
			return c.Cmp(op, k, t)
		}
		return c.Cmp(op, t, k)
	}
	return c.Ite(t.A[0], c.cmpIteConst(op, t.A[1], k, swapped), c.cmpIteConst(op, t.A[2], k, swapped))
}

func (c *Ctx) un(op Op, a *Term) *Term {
	if a.IsConst() && a.W <= 64 {
		switch op {
		case OpBvNot:
			return c.Const(^a.V, a.W)
		case OpBvNeg:
			return c.Const(-a.V, a.W)
		}
	}
	if a.Op == op { // double negation
		return a.A[0]
	}
	return c.mk(&Term{Op: op, W: a.W, A: []*Term{a}})
}

func (c *Ctx) BvNot(a *Term) *Term { return c.un(OpBvNot, a) }
func (c *Ctx) BvNeg(a *Term) *Term { return c.un(OpBvNeg, a) }

func foldBin(op Op, x, y uint64, w int) (uint64, bool) {
	m := mask(w)
	switch op {
	case OpBvAnd:
		return x & y, true
	case OpBvOr:
		return x | y, true
	case OpBvXor:
		return x ^ y, true
	case OpBvAdd:
		return (x + y) & m, true
	case OpBvSub:
		return (x - y) & m, true
	case OpBvMul:
		return (x * y) & m, true
	case OpBvUdiv:
		if y == 0 {
			return m, true
		}
		return x / y, true
	case OpBvUrem:
		if y == 0 {
			return x, true
		}
		return x % y, true
	case OpBvSdiv:
		sx, sy := sext64(x, w), sext64(y, w)
		if sy == 0 {
			if sx < 0 {
				return 1, true
			}
			return m, true
		}
		if sy == -1 {
			return uint64(-sx) & m, true
		}
		return uint64(sx/sy) & m, true
	case OpBvSrem:
		sx, sy := sext64(x, w), sext64(y, w)
		if sy == 0 {
			return x, true
		}
		if sy == -1 {
			return 0, true
		}
		return uint64(sx%sy) & m, true
	case OpBvShl:
		if y >= uint64(w) {
			return 0, true
		}
		return (x << y) & m, true
	case OpBvLshr:
		if y >= uint64(w) {
			return 0, true
		}
		return x >> y, true
	case OpBvAshr:
		sx := sext64(x, w)
		if y >= uint64(w) {
			y = uint64(w - 1)
		}
		return uint64(sx>>y) & m, true
	}
	return 0, false
}

func (c *Ctx) Bin(op Op, a, b *Term) *Term {
	if a.W != b.W {
		panic(fmt.Sprintf("smt: %s width mismatch %d %d", opName[op], a.W, b.W))
	}
	w := a.W
	if a.IsConst() && b.IsConst() && w <= 64 {
		if v, ok := foldBin(op, a.V, b.V, w); ok {
			return c.Const(v, w)
		}
	}
	// commutative: constant to the right
	switch op {
	case OpBvAnd, OpBvOr, OpBvXor, OpBvAdd, OpBvMul:
		if a.IsConst() && !b.IsConst() {
			a, b = b, a
		} else if !a.IsConst() && !b.IsConst() && a.ID > b.ID {
			a, b = b, a
		}
	}
	if b.IsConst() && w <= 64 {
		switch op {
		case OpBvAdd, OpBvSub, OpBvOr, OpBvXor, OpBvShl, OpBvLshr, OpBvAshr:
			if b.V == 0 {
				return a
			}
		case OpBvAnd:
			if b.V == 0 {
				return b
			}
			if b.V == mask(w) {
				return a
			}
		case OpBvMul:
			if b.V == 0 {
				return b
			}
			if b.V == 1 {
				return a
			}
		case OpBvUdiv:
			if b.V == 1 {
				return a
			}
		case OpBvUrem:
			if b.V == 1 {
				return c.Const(0, w)
			}
		}
		switch op {
		case OpBvShl, OpBvLshr:
			if b.V >= uint64(w) {
				return c.Const(0, w)
			}
		}
		// power-of-two division/modulo to shift/mask (helps the bit-blaster)
		if bits.OnesCount64(b.V) == 1 {
			k := uint64(bits.TrailingZeros64(b.V))
			switch op {
			case OpBvUdiv:
				return c.Bin(OpBvLshr, a, c.Const(k, w))
			case OpBvUrem:
				return c.Bin(OpBvAnd, a, c.Const(b.V-1, w))
			case OpBvMul:
				return c.Bin(OpBvShl, a, c.Const(k, w))
			}
		}
		// (x + k1) + k2
		if op == OpBvAdd && a.Op == OpBvAdd && a.A[1].IsConst() {
			return c.Bin(OpBvAdd, a.A[0], c.Const(a.A[1].V+b.V, w))
		}
		if op == OpBvSub {
			return c.Bin(OpBvAdd, a, c.Const(-b.V, w))
		}
	}
	if a.IsConst() && w <= 64 && a.V == 0 {
		switch op {
		case OpBvShl, OpBvLshr, OpBvAshr, OpBvUdiv, OpBvUrem:
			// 0 op x: udiv by zero gives all-ones, so only shifts fold
			if op == OpBvShl || op == OpBvLshr || op == OpBvAshr {
				return a
			}
		}
	}
	if a == b {
		switch op {
		case OpBvAnd, OpBvOr:
			return a
		case OpBvXor, OpBvSub:
			return c.Const0(w)
		}
	}
	if (op == OpBvOr || op == OpBvXor || op == OpBvAdd) && w <= 64 {
		if r := c.mergeSegs(a, b, w); r != nil {
			return r
		}
	}
	if op == OpBvShl && b.IsConst() && w <= 64 {
		if sa, ok := c.segsOf(a, 0); ok {
			var sh []seg
			for _, s := range sa {
				s.lo += int(b.V)
				if s.lo+s.t.W > w {
					sh = nil
					break
				}
				sh = append(sh, s)
			}
			if sh != nil {
				return c.fromSegs(sh, w)
			}
		}
	}
	if op == OpBvLshr && b.IsConst() && a.Op == OpConcat {
		// shifting a concatenation right by whole parts
		k := int(b.V)
		return c.Zext(c.Extract(a, w-1, k), w)
	}
	return c.mk(&Term{Op: op, W: w, A: []*Term{a, b}})
}

// seg is a non-zero bit range [lo, lo+t.W) of a word that is zero elsewhere.
type seg struct {
	lo int
	t  *Term
}

// segsOf views t as disjoint segments over zeros (zext, shl by constant, concat with zero constants).
func (c *Ctx) segsOf(t *Term, depth int) ([]seg, bool) {
	if depth > 12 {
		return nil, false
	}
	switch t.Op {
	case OpConst:
		if t.V == 0 {
			return nil, true
		}
		return nil, false
	case OpZext:
		if s, ok := c.segsOf(t.A[0], depth+1); ok && len(s) > 0 {
			return s, true
		}
		return []seg{{0, t.A[0]}}, true
	case OpBvShl:
		if t.A[1].IsConst() {
			s, ok := c.segsOf(t.A[0], depth+1)
			if !ok {
				return nil, false
			}
			k := int(t.A[1].V)
			var out []seg
			for _, x := range s {
				if x.lo+k+x.t.W > t.W {
					return nil, false
				}
				out = append(out, seg{x.lo + k, x.t})
			}
			return out, true
		}
	case OpConcat:
		var out []seg
		pos := t.W
		for _, p := range t.A {
			pos -= p.W
			if p.IsConst() && p.V == 0 {
				continue
			}
			out = append(out, seg{pos, p})
		}
		return out, true
	}
	return nil, false
}

func (c *Ctx) fromSegs(ss []seg, w int) *Term {
	// sort by lo descending (high part first)
	for i := 1; i < len(ss); i++ {
		for j := i; j > 0 && ss[j].lo > ss[j-1].lo; j-- {
			ss[j], ss[j-1] = ss[j-1], ss[j]
		}
	}
	var parts []*Term
	pos := w
	for _, s := range ss {
		hi := s.lo + s.t.W
		if hi > pos {
			return nil
		}
		if hi < pos {
			parts = append(parts, c.Const0(pos-hi))
		}
		parts = append(parts, s.t)
		pos = s.lo
	}
	if pos > 0 {
		parts = append(parts, c.Const0(pos))
	}
	return c.Concat(parts...)
}

func (c *Ctx) mergeSegs(a, b *Term, w int) *Term {
	sa, ok := c.segsOf(a, 0)
	if !ok || len(sa) == 0 {
		return nil
	}
	sb, ok := c.segsOf(b, 0)
	if !ok || len(sb) == 0 {
		return nil
	}
	all := append(append([]seg(nil), sa...), sb...)
	r := c.fromSegs(all, w)
	return r
}

// Const0 returns a zero of any width.
func (c *Ctx) Const0(w int) *Term {
	if w <= 64 {
		return c.Const(0, w)
	}
	parts := []*Term{}
	for r := w; r > 0; r -= 64 {
		k := 64
		if r < 64 {
			k = r
		}
		parts = append(parts, c.Const(0, k))
	}
	return c.mk(&Term{Op: OpConcat, W: w, A: parts})
}

func (c *Ctx) Cmp(op Op, a, b *Term) *Term {
	if a.W != b.W {
		panic("smt: cmp width mismatch")
	}
	if a.IsConst() && b.IsConst() {
		switch op {
		case OpBvUlt:
			return c.Bool(a.V < b.V)
		case OpBvUle:
			return c.Bool(a.V <= b.V)
		case OpBvSlt:
			return c.Bool(sext64(a.V, a.W) < sext64(b.V, b.W))
		case OpBvSle:
			return c.Bool(sext64(a.V, a.W) <= sext64(b.V, b.W))
		}
	}
	if a == b {
		return c.Bool(op == OpBvUle || op == OpBvSle)
	}
	// comparisons of an ite chain over constants (table look-ups) with a constant fold per leaf
	if b.IsConst() && a.Op == OpIte && iteOfConsts(a, 0) {
		return c.cmpIteConst(op, a, b, false)
	}
	if a.IsConst() && b.Op == OpIte && iteOfConsts(b, 0) {
		return c.cmpIteConst(op, b, a, true)
	}
	if op == OpBvUlt && b.IsConst() && b.V == 0 {
		return c.False
	}
	if op == OpBvUle && a.IsConst() && a.V == 0 {
		return c.True
	}
	// zext(x) <u const beyond range
	if (op == OpBvUlt || op == OpBvUle) && a.Op == OpZext && b.IsConst() {
		iw := a.A[0].W
		if iw < 64 && b.V > mask(iw) {
			return c.True
		}
	}
	return c.mk(&Term{Op: op, A: []*Term{a, b}})
}

func (c *Ctx) Concat(parts ...*Term) *Term {
	// flatten and merge adjacent constants where the result fits 64 bits
	var fl []*Term
	for _, p := range parts {
		if p.Op == OpConcat {
			fl = append(fl, p.A...)
		} else {
			fl = append(fl, p)
		}
	}
	var out []*Term
	for _, p := range fl {
		if n := len(out); n > 0 && out[n-1].IsConst() && p.IsConst() && out[n-1].W+p.W <= 64 {
			out[n-1] = c.Const(out[n-1].V<<uint(p.W)|p.V, out[n-1].W+p.W)
			continue
		}
		// adjacent extracts of the same term
		if n := len(out); n > 0 && out[n-1].Op == OpExtract && p.Op == OpExtract && out[n-1].A[0] == p.A[0] && out[n-1].Lo == p.Hi+1 {
			out[n-1] = c.Extract(p.A[0], out[n-1].Hi, p.Lo)
			continue
		}
		out = append(out, p)
	}
	if len(out) == 1 {
		return out[0]
	}
	w := 0
	for _, p := range out {
		w += p.W
	}
	return c.mk(&Term{Op: OpConcat, W: w, A: out})
}

func (c *Ctx) Extract(a *Term, hi, lo int) *Term {
	if lo == 0 && hi == a.W-1 {
		return a
	}
	w := hi - lo + 1
	if a.IsConst() {
		return c.Const(a.V>>uint(lo), w)
	}
	switch a.Op {
	case OpExtract:
		return c.Extract(a.A[0], hi+a.Lo, lo+a.Lo)
	case OpConcat:
		// find the covering parts
		pos := a.W
		var sel []*Term
		for _, p := range a.A {
			phi, plo := pos-1, pos-p.W
			pos = plo
			if phi < lo || plo > hi {
				continue
			}
			h, l := hi, lo
			if h > phi {
				h = phi
			}
			if l < plo {
				l = plo
			}
			sel = append(sel, c.Extract(p, h-plo, l-plo))
		}
		return c.Concat(sel...)
	case OpZext:
		iw := a.A[0].W
		if hi < iw {
			return c.Extract(a.A[0], hi, lo)
		}
		if lo >= iw {
			return c.Const0(w)
		}
	case OpSext:
		iw := a.A[0].W
		if hi < iw {
			return c.Extract(a.A[0], hi, lo)
		}
	case OpBvLshr:
		if a.A[1].IsConst() && a.W <= 64 {
			k := int(a.A[1].V)
			if hi+k < a.W {
				return c.Extract(a.A[0], hi+k, lo+k)
			}
			if lo+k >= a.W {
				return c.Const0(w)
			}
		}
	case OpBvShl:
		if a.A[1].IsConst() && a.W <= 64 {
			k := int(a.A[1].V)
			if lo >= k {
				return c.Extract(a.A[0], hi-k, lo-k)
			}
			if hi < k {
				return c.Const0(w)
			}
		}
	case OpBvAnd, OpBvOr, OpBvXor:
		if w <= 8 { // byte extraction of bitwise ops distributes; keeps byte-level terms small
			return c.Bin(a.Op, c.Extract(a.A[0], hi, lo), c.Extract(a.A[1], hi, lo))
		}
	case OpIte:
		if a.A[1].IsConst() && a.A[2].IsConst() {
			return c.Ite(a.A[0], c.Extract(a.A[1], hi, lo), c.Extract(a.A[2], hi, lo))
		}
	}
	return c.mk(&Term{Op: OpExtract, W: w, A: []*Term{a}, Hi: hi, Lo: lo})
}

func (c *Ctx) Zext(a *Term, w int) *Term {
	if w == a.W {
		return a
	}
	if w < a.W {
		return c.Extract(a, w-1, 0)
	}
	if a.IsConst() && w <= 64 {
		return c.Const(a.V, w)
	}
	if a.Op == OpZext {
		return c.Zext(a.A[0], w)
	}
	return c.mk(&Term{Op: OpZext, W: w, A: []*Term{a}})
}

func (c *Ctx) Sext(a *Term, w int) *Term {
	if w == a.W {
		return a
	}
	if w < a.W {
		return c.Extract(a, w-1, 0)
	}
	if a.IsConst() && w <= 64 {
		return c.Const(uint64(sext64(a.V, a.W)), w)
	}
	if a.IsConst() && a.W == 64 && w == 128 {
		hi := uint64(0)
		if int64(a.V) < 0 {
			hi = ^uint64(0)
		}
		return c.mk(&Term{Op: OpConcat, W: 128, A: []*Term{c.Const(hi, 64), a}})
	}
	if a.Op == OpZext { // already non-negative
		return c.Zext(a.A[0], w)
	}
	return c.mk(&Term{Op: OpSext, W: w, A: []*Term{a}})
}

// App applies the uninterpreted function name to args, result width w (0 = Bool).
func (c *Ctx) App(name string, w int, args ...*Term) *Term {
	if _, ok := c.Funs[name]; !ok {
		sig := make([]int, 0, len(args)+1)
		for _, a := range args {
			sig = append(sig, a.W)
		}
		sig = append(sig, w)
		c.Funs[name] = sig
		c.FunOrd = append(c.FunOrd, name)
	}
	return c.mk(&Term{Op: OpApp, W: w, Name: name, A: append([]*Term(nil), args...)})
}

func sortStr(w int) string {
	if w == 0 {
		return "Bool"
	}
	return "(_ BitVec " + strconv.Itoa(w) + ")"
}

func constStr(v uint64, w int) string {
	if w == 0 {
		if v != 0 {
			return "true"
		}
		return "false"
	}
	if w%4 == 0 {
		s := strconv.FormatUint(v, 16)
		for len(s) < w/4 {
			s = "0" + s
		}
		return "#x" + s
	}
	s := strconv.FormatUint(v, 2)
	for len(s) < w {
		s = "0" + s
	}
	return "#b" + s
}

// head returns the SMT-LIB text of t with children referenced by name.
func (t *Term) head(ref func(*Term) string) string {
	switch t.Op {
	case OpConst:
		return constStr(t.V, t.W)
	case OpVar:
		return t.Name
	case OpExtract:
		return fmt.Sprintf("((_ extract %d %d) %s)", t.Hi, t.Lo, ref(t.A[0]))
	case OpZext:
		return fmt.Sprintf("((_ zero_extend %d) %s)", t.W-t.A[0].W, ref(t.A[0]))
	case OpSext:
		return fmt.Sprintf("((_ sign_extend %d) %s)", t.W-t.A[0].W, ref(t.A[0]))
	case OpApp:
		if len(t.A) == 0 {
			return t.Name
		}
		var sb strings.Builder
		sb.WriteString("(" + t.Name)
		for _, a := range t.A {
			sb.WriteString(" " + ref(a))
		}
		sb.WriteString(")")
		return sb.String()
	}
	var sb strings.Builder
	sb.WriteString("(" + opName[t.Op])
	for _, a := range t.A {
		sb.WriteString(" " + ref(a))
	}
	sb.WriteString(")")
	return sb.String()
}

// String prints a term as a tree (debugging, small terms only).
func (t *Term) String() string {
	return t.head(func(a *Term) string { return a.String() })
}
