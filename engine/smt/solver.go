package smt

import (
	"bufio"
	"fmt"
	"io"
	"os/exec"
	"strconv"
	"strings"
	"time"
)

type Result int

const (
	Unsat Result = iota
	Sat
	Unknown
)

func (r Result) String() string { return [...]string{"unsat", "sat", "unknown"}[r] }

// Solver drives one long-lived SMT solver process over stdin/stdout.
type Solver struct {
	Kind    string // z3 | z3-new | cvc5
	cmd     *exec.Cmd
	in      io.WriteCloser
	out     *bufio.Reader
	ctx     *Ctx
	emitted []map[*Term]bool // per push level
	nvars   []int            // number of ctx.Vars declared per level
	nfuns   []int
	Queries int
	Time    time.Duration
	Errors  int
	Log     io.Writer // optional transcript
	TimeoutMs int
	buf     strings.Builder
}

func NewSolver(kind string, timeoutMs int) (*Solver, error) {
	var cmd *exec.Cmd
	switch kind {
	case "z3", "z3-new":
		cmd = exec.Command(kind, "-in", "-smt2", fmt.Sprintf("-t:%d", timeoutMs))
	case "cvc5":
		cmd = exec.Command("cvc5", "--incremental", "--lang=smt2", "--produce-models", fmt.Sprintf("--tlimit-per=%d", timeoutMs))
	default:
		return nil, fmt.Errorf("unknown solver %q", kind)
	}
	in, err := cmd.StdinPipe()
	if err != nil {
		return nil, err
	}
	out, err := cmd.StdoutPipe()
	if err != nil {
		return nil, err
	}
	cmd.Stderr = cmd.Stdout
	if err := cmd.Start(); err != nil {
		return nil, err
	}
	s := &Solver{Kind: kind, cmd: cmd, in: in, out: bufio.NewReaderSize(out, 1<<16), TimeoutMs: timeoutMs}
	if kind == "cvc5" {
		s.send("(set-logic ALL)")
	}
	s.send("(set-option :produce-models true)")
	return s, nil
}

func (s *Solver) Close() {
	if s.cmd != nil {
		s.in.Close()
		s.cmd.Process.Kill()
		s.cmd.Wait()
		s.cmd = nil
	}
}

func (s *Solver) send(line string) {
	if s.Log != nil {
		fmt.Fprintln(s.Log, line)
	}
	s.buf.WriteString(line)
	s.buf.WriteByte('\n')
}

func (s *Solver) flush() {
	io.WriteString(s.in, s.buf.String())
	s.buf.Reset()
}

// Begin starts a fresh path: everything from the previous path is popped.
func (s *Solver) Begin(ctx *Ctx) {
	if len(s.emitted) > 0 {
		s.send(fmt.Sprintf("(pop %d)", len(s.emitted)))
	}
	s.ctx = ctx
	s.emitted = nil
	s.nvars = nil
	s.nfuns = nil
	s.Push()
}

func (s *Solver) Push() {
	s.send("(push 1)")
	s.emitted = append(s.emitted, map[*Term]bool{})
	nv, nf := 0, 0
	if n := len(s.nvars); n > 0 {
		nv, nf = s.nvars[n-1], s.nfuns[n-1]
	}
	s.nvars = append(s.nvars, nv)
	s.nfuns = append(s.nfuns, nf)
}

func (s *Solver) Pop() {
	s.send("(pop 1)")
	n := len(s.emitted) - 1
	s.emitted = s.emitted[:n]
	s.nvars = s.nvars[:n]
	s.nfuns = s.nfuns[:n]
}

func (s *Solver) isEmitted(t *Term) bool {
	for _, m := range s.emitted {
		if m[t] {
			return true
		}
	}
	return false
}

func tname(t *Term) string { return "t" + strconv.Itoa(t.ID) }

func (s *Solver) ref(t *Term) string {
	switch t.Op {
	case OpConst:
		return constStr(t.V, t.W)
	case OpVar:
		return t.Name
	}
	return tname(t)
}

// declare emits pending variable/function declarations and define-funs for t's DAG.
func (s *Solver) declare(t *Term) {
	top := len(s.emitted) - 1
	for s.nvars[top] < len(s.ctx.Vars) {
		v := s.ctx.Vars[s.nvars[top]]
		s.send(fmt.Sprintf("(declare-const %s %s)", v.Name, sortStr(v.W)))
		s.nvars[top]++
	}
	for s.nfuns[top] < len(s.ctx.FunOrd) {
		name := s.ctx.FunOrd[s.nfuns[top]]
		sig := s.ctx.Funs[name]
		var sb strings.Builder
		for _, w := range sig[:len(sig)-1] {
			sb.WriteString(sortStr(w) + " ")
		}
		s.send(fmt.Sprintf("(declare-fun %s (%s) %s)", name, sb.String(), sortStr(sig[len(sig)-1])))
		s.nfuns[top]++
	}
	// iterative post-order
	type fr struct {
		t *Term
		i int
	}
	stack := []fr{{t, 0}}
	for len(stack) > 0 {
		f := &stack[len(stack)-1]
		if f.t.Op == OpConst || f.t.Op == OpVar || s.isEmitted(f.t) {
			stack = stack[:len(stack)-1]
			continue
		}
		if f.i < len(f.t.A) {
			f.i++
			stack = append(stack, fr{f.t.A[f.i-1], 0})
			continue
		}
		s.send(fmt.Sprintf("(define-fun %s () %s %s)", tname(f.t), sortStr(f.t.W), f.t.head(s.ref)))
		s.emitted[top][f.t] = true
		stack = stack[:len(stack)-1]
	}
}

func (s *Solver) Assert(t *Term) {
	if t.IsConst() && t.V != 0 {
		return
	}
	s.declare(t)
	s.send("(assert " + s.ref(t) + ")")
}

func (s *Solver) readLine() (string, error) {
	l, err := s.out.ReadString('\n')
	return strings.TrimSpace(l), err
}

// Check runs check-sat in the current scope.
func (s *Solver) Check() Result {
	s.send("(check-sat)")
	s.flush()
	t0 := time.Now()
	defer func() { s.Time += time.Since(t0); s.Queries++ }()
	res := Unknown
	sawErr := false
	for {
		l, err := s.readLine()
		if err != nil {
			s.Errors++
			return Unknown
		}
		if l == "" {
			continue
		}
		if strings.HasPrefix(l, "(error") {
			sawErr = true
			s.Errors++
			if s.Log != nil {
				fmt.Fprintln(s.Log, "; "+l)
			}
			continue
		}
		switch l {
		case "sat":
			res = Sat
		case "unsat":
			res = Unsat
		case "unknown", "timeout":
			res = Unknown
		default:
			continue
		}
		break
	}
	if sawErr {
		return Unknown
	}
	return res
}

// CheckWith decides sat(current scope ∧ t) without changing the scope.
func (s *Solver) CheckWith(t *Term) Result {
	if t.IsConst() {
		if t.V == 0 {
			return Unsat
		}
		return s.Check()
	}
	s.Push()
	s.Assert(t)
	r := s.Check()
	s.Pop()
	return r
}

// Values returns the model values of the given terms (after a Sat answer, before the scope changes).
// Terms must be constants/variables or have been asserted/declared; widths <= 64 give V, wider give hex string.
func (s *Solver) Values(ts []*Term) (map[*Term]string, error) {
	res := map[*Term]string{}
	var names []string
	var order []*Term
	for _, t := range ts {
		if t.IsConst() {
			res[t] = constStr(t.V, t.W)
			continue
		}
		s.declare(t)
		names = append(names, s.ref(t))
		order = append(order, t)
	}
	if len(names) == 0 {
		return res, nil
	}
	s.send("(get-value (" + strings.Join(names, " ") + "))")
	s.send("(echo \"<<done>>\")")
	s.flush()
	t0 := time.Now()
	defer func() { s.Time += time.Since(t0) }()
	var all strings.Builder
	for {
		l, err := s.readLine()
		if err != nil {
			return nil, err
		}
		if l == "<<done>>" || l == "\"<<done>>\"" {
			break
		}
		all.WriteString(l)
		all.WriteByte(' ')
	}
	txt := all.String()
	if strings.Contains(txt, "(error") {
		s.Errors++
		return nil, fmt.Errorf("solver: %s", txt)
	}
	// parse ((name val) (name val) ...): values are #x.., #b.., true, false, or (_ bvN w)
	toks := tokenize(txt)
	// find pairs: "(" name val ")"
	i := 0
	idx := 0
	for i < len(toks) && idx < len(order) {
		if toks[i] == "(" && i+1 < len(toks) && toks[i+1] == names[idx] {
			j := i + 2
			var val string
			if toks[j] == "(" { // (_ bv123 8)
				val = bvDecl(toks[j+2], toks[j+3])
			} else {
				val = toks[j]
			}
			res[order[idx]] = val
			idx++
			i = j
		}
		i++
	}
	if idx != len(order) {
		return nil, fmt.Errorf("solver: could not parse model %q", txt)
	}
	return res, nil
}

func bvDecl(bv, w string) string {
	n, _ := strconv.ParseUint(strings.TrimPrefix(bv, "bv"), 10, 64)
	wi, _ := strconv.Atoi(w)
	return constStr(n, wi)
}

func tokenize(s string) []string {
	var out []string
	cur := strings.Builder{}
	fl := func() {
		if cur.Len() > 0 {
			out = append(out, cur.String())
			cur.Reset()
		}
	}
	for _, r := range s {
		switch r {
		case '(', ')':
			fl()
			out = append(out, string(r))
		case ' ', '\t', '\n', '\r':
			fl()
		default:
			cur.WriteRune(r)
		}
	}
	fl()
	return out
}

// ParseVal converts a model literal (#x.., #b.., true/false) to uint64 (low 64 bits) and its hex text.
func ParseVal(lit string) (uint64, string) {
	switch {
	case lit == "true":
		return 1, "1"
	case lit == "false":
		return 0, "0"
	case strings.HasPrefix(lit, "#x"):
		h := lit[2:]
		l := h
		if len(l) > 16 {
			l = l[len(l)-16:]
		}
		v, _ := strconv.ParseUint(l, 16, 64)
		return v, h
	case strings.HasPrefix(lit, "#b"):
		b := lit[2:]
		l := b
		if len(l) > 64 {
			l = l[len(l)-64:]
		}
		v, _ := strconv.ParseUint(l, 2, 64)
		return v, strconv.FormatUint(v, 16)
	}
	return 0, lit
}
