package main

// Per-property statements of bounds and assumptions that go into evidence.
// (Kept next to the driver so they are versioned with the harnesses.)

var commonAssumptions = []string{
	"claims hold only within the stated bounds; paths ending unwind-exceeded/bound-exceeded/inconclusive/unsupported are reported and make exhaustive=false",
	"SHA-512/256 and SHA-256 are modelled as uninterpreted, collision-free functions (concrete inputs use the real digest)",
	"formatting/logging/progress calls are stubs returning opaque values",
	"goroutine schedules are explored only at synchronisation operations (data-race freedom assumed) up to the preemption bound",
	"the engine (verif/engine: SSA interpreter, term simplifier, SMT printer) and z3 are trusted; counterexamples are re-executed concretely and natively before being reported",
}

func assumptionsFor(prop string, stubs []string) []string {
	out := append([]string(nil), commonAssumptions...)
	out = append(out, propAssumptions[prop]...)
	return out
}

var propAssumptions = map[string][]string{}

var propBounds = map[string]map[string]string{}

func boundsFor(prop, tier string) string {
	if m, ok := propBounds[prop]; ok {
		return m[tier]
	}
	return ""
}
