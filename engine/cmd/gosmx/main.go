// gosmx: symbolic execution of desync harnesses (see /verif/DESIGN.md).
package main

import (
	"encoding/json"
	"flag"
	"fmt"
	"os"
	"regexp"
	"runtime/pprof"
	"sort"
	"time"

	"verif/engine/symx"
)

func main() {
	if len(os.Args) > 1 && os.Args[1] == "check" {
		os.Exit(runCheck(os.Args[2:]))
	}
	repo := flag.String("repo", "/repo", "repository to analyse")
	hdir := flag.String("harness", "/verif/harness", "harness directory")
	prefix := flag.String("prefix", "Verif", "harness name prefix")
	run := flag.String("run", "", "regexp selecting harnesses")
	tier := flag.String("tier", "quick", "quick|thorough")
	solver := flag.String("solver", "z3-new", "z3|z3-new|cvc5")
	timeout := flag.Int("timeout", 10000, "solver timeout per query (ms)")
	workers := flag.Int("workers", 0, "parallel workers (0 = cores)")
	unwind := flag.Int("unwind", 64, "symbolic decisions per instruction and frame")
	conc := flag.Int("conc", 16, "concretisation cap")
	preempt := flag.Int("preempt", 1, "preemption bound")
	maxpaths := flag.Int("maxpaths", 0, "stop after this many paths (0 = no limit)")
	maxsteps := flag.Int64("maxsteps", 20000000, "SSA instructions per path")
	verbose := flag.Bool("v", false, "verbose")
	out := flag.String("out", "", "write results JSON here")
	trace := flag.String("trace", "", "replay a single decision vector")
	concrete := flag.String("concrete", "", "JSON file with nondet values (concrete mode)")
	slog := flag.String("solverlog", "", "write the SMT transcript of worker 0")
	cpuprof := flag.String("cpuprofile", "", "write cpu profile")
	flag.Parse()
	if *cpuprof != "" {
		f, _ := os.Create(*cpuprof)
		pprof.StartCPUProfile(f)
		defer pprof.StopCPUProfile()
	}

	cfg := symx.Config{Solver: *solver, TimeoutMs: *timeout, Workers: *workers, Unwind: *unwind, ConcCap: *conc,
		Preempt: *preempt, MaxPaths: *maxpaths, MaxSteps: *maxsteps, Verbose: *verbose, ReplayTrace: *trace, SolverLog: *slog}
	if *tier == "thorough" {
		cfg.Tier = 1
	}
	if *concrete != "" {
		b, err := os.ReadFile(*concrete)
		if err != nil {
			fmt.Fprintln(os.Stderr, err)
			os.Exit(2)
		}
		var v struct {
			Model map[string]string `json:"model"`
		}
		if err := json.Unmarshal(b, &v); err != nil {
			fmt.Fprintln(os.Stderr, err)
			os.Exit(2)
		}
		cfg.Concrete = v.Model
	}
	t0 := time.Now()
	eng, err := symx.Load(*repo, *hdir, cfg)
	if err != nil {
		fmt.Fprintln(os.Stderr, "LOAD-ERROR:", err)
		os.Exit(2)
	}
	fmt.Fprintf(os.Stderr, "loaded in %.1fs\n", time.Since(t0).Seconds())
	var re *regexp.Regexp
	if *run != "" {
		re = regexp.MustCompile(*run)
	}
	var results []*symx.HarnessResult
	for _, h := range eng.Harnesses(*prefix) {
		if re != nil && !re.MatchString(h.Name()) {
			continue
		}
		r := eng.Run(h)
		results = append(results, r)
		fmt.Printf("== %s: paths=%v covers=%v queries=%d solver=%.1fs wall=%.1fs steps=%d unknown=%d\n", r.Name, r.Paths, keys(r.Covers), r.Queries, r.SolverS, r.WallS, r.Steps, r.Unknowns)
		for m, n := range r.PathMsgs {
			fmt.Printf("   [%d] %s\n", n, m)
		}
		for _, v := range r.Violations {
			fmt.Printf("   VIOLATION %s %q at %s model=%v\n", v.Kind, v.Label, v.Pos, v.Model)
			if *verbose {
				for _, s := range v.Stack {
					fmt.Printf("        %s\n", s)
				}
				fmt.Printf("        trace: %s\n", v.Trace)
			}
		}
	}
	if *out != "" {
		b, _ := json.MarshalIndent(results, "", " ")
		os.WriteFile(*out, b, 0644)
	}
}

func keys(m map[string]int) []string {
	var k []string
	for s := range m {
		k = append(k, s)
	}
	sort.Strings(k)
	return k
}
