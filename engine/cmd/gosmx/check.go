package main

import (
	"crypto/sha256"
	"encoding/hex"
	"encoding/json"
	"fmt"
	"os"
	"os/exec"
	"path/filepath"
	"regexp"
	"sort"
	"strconv"
	"strings"
	"syscall"
	"time"

	"verif/engine/symx"
)

type knownFinding struct {
	Property string `json:"property"`
	Harness  string `json:"harness"`
	Kind     string `json:"kind"`
	LabelRe  string `json:"label_re"`
	Status   string `json:"status"` // known | fixed
	Commit   string `json:"commit,omitempty"`
	What     string `json:"what"`
}

type boundsDoc struct {
	Harness string `json:"harness"`
	Text    string `json:"text"`
}

// runCheck implements `gosmx check <Cxx> [--tier quick|thorough] [--replay file]`.
func runCheck(args []string) int {
	prop := ""
	tier := os.Getenv("VERIF_TIER")
	if tier == "" {
		tier = "quick"
	}
	replay := ""
	verbose := false
	only := ""
	for k := 0; k < len(args); k++ {
		switch args[k] {
		case "--tier":
			k++
			tier = args[k]
		case "--replay":
			k++
			replay = args[k]
		case "--run":
			k++
			only = args[k]
		case "-v":
			verbose = true
		default:
			prop = args[k]
		}
	}
	if prop == "" {
		fmt.Fprintln(os.Stderr, "usage: gosmx check <Cxx> [--tier quick|thorough] [--replay file]")
		return 2
	}
	seed := int64(0)
	if s := os.Getenv("VERIF_SEED"); s != "" {
		seed, _ = strconv.ParseInt(s, 10, 64)
	}
	t0 := time.Now()
	cfg := symx.Config{Solver: solverName(), TimeoutMs: 10000, Unwind: 64, ConcCap: 16, Preempt: 1, MaxSteps: 20000000, Seed: seed, Verbose: verbose}
	cfg.MaxWallS = 300 // per harness; every quick harness finishes in < 150 s on the unchanged tree
	if tier == "thorough" {
		nativeTier = "1"
		cfg.Tier = 1
		cfg.TimeoutMs = 60000
		// the default preemption bound stays 1 (harnesses that are about schedules raise it themselves
		// with vPreempt(.. + vTier())): a blanket bound of 2 did not finish within hours
		cfg.MaxWallS = 900
	}
	if replay != "" {
		return doReplay(prop, replay, cfg)
	}
	eng, err := symx.Load("/repo", "/verif/harness", cfg)
	if err != nil {
		fmt.Fprintln(os.Stderr, "LOAD-ERROR:", err)
		fmt.Println("HARNESS-ERROR: the harness no longer type-checks against /repo (not a verdict)")
		return 2
	}
	hs := eng.Harnesses("Verif" + prop + "_")
	if len(hs) == 0 {
		fmt.Fprintln(os.Stderr, "no harness for", prop)
		return 2
	}
	var re *regexp.Regexp
	if only != "" {
		re = regexp.MustCompile(only)
	}
	known := loadKnown()
	os.MkdirAll("/verif/replays", 0755)
	os.MkdirAll("/verif/evidence", 0755)

	var results []*symx.HarnessResult
	exit := 0
	states, transitions := 0, int64(0)
	queries, unknowns := 0, 0
	solverS := 0.0
	exhaustive := true
	funcs := map[string]string{}
	stubs := map[string]int{}
	var samples []interface{}
	var lines []string
	covers := map[string]int{}
	nviol, nknown, nunconf := 0, 0, 0
	validated := 0
	pathsByOutcome := map[string]int{}
	notes := map[string]bool{}
	vacuous := []string{}
	for _, h := range hs {
		if re != nil && !re.MatchString(h.Name()) {
			continue
		}
		r := eng.Run(h)
		results = append(results, r)
		fmt.Printf("harness %s: paths=%v queries=%d solver=%.1fs wall=%.1fs\n", r.Name, r.Paths, r.Queries, r.SolverS, r.WallS)
		for m, n := range r.PathMsgs {
			if strings.HasPrefix(m, "panic:") || strings.HasPrefix(m, "deadlock:") {
				continue // reported as violations (or expected by the harness)
			}
			fmt.Printf("  INCONCLUSIVE [%d paths] %s\n", n, m)
		}
		if r.Truncated {
			fmt.Printf("  INCONCLUSIVE harness %s was not explored to the end (time budget, path limit or repeated solver time-outs): not exhaustive\n", r.Name)
		}
		for o, n := range r.Paths {
			pathsByOutcome[o] += n
			if o != "infeasible" {
				states += n
			}
			switch o {
			case "ok", "infeasible", "panic", "deadlock":
			default:
				exhaustive = false
			}
		}
		if r.Truncated {
			exhaustive = false
		}
		if len(r.Covers) == 0 {
			vacuous = append(vacuous, r.Name)
		}
		transitions += r.Steps
		queries += r.Queries
		unknowns += r.Unknowns
		solverS += r.SolverS
		for k, v := range r.Funcs {
			funcs[k] = v
		}
		for k, v := range r.Stubs {
			stubs[k] += v
		}
		for k, v := range r.Covers {
			covers[r.Name+":"+k] += v
		}
		for k := range r.Notes {
			notes[k] = true
		}
		for _, s := range r.Samples {
			if len(samples) < 8 {
				samples = append(samples, map[string]interface{}{"harness": r.Name, "decisions": s.Trace, "outcome": s.Outcome, "ssa_instructions": s.Steps, "symbolic_inputs": s.Nondet})
			}
		}
		for _, v := range r.Violations {
			// replay 1: concrete re-execution in the engine
			path := writeReplay(prop, v)
			confirmed, how := confirm(eng, h.Name(), v, path)
			for k := 0; !confirmed && k < len(v.Alts); k++ {
				// another counterexample for the same assertion may replay where this one does not
				alt := v.Alts[k]
				apath := strings.TrimSuffix(path, ".json") + fmt.Sprintf("-alt%d.json", k+1)
				ab, _ := json.MarshalIndent(alt, "", " ")
				os.WriteFile(apath, ab, 0644)
				if ok2, how2 := confirm(eng, h.Name(), alt, apath); ok2 {
					confirmed, how, path, v = true, how2+fmt.Sprintf("; counterexample %d of %d for this assertion", k+2, len(v.Alts)+1), apath, alt
				} else {
					os.Remove(apath)
				}
			}
			if !confirmed {
				nunconf++
				lines = append(lines, fmt.Sprintf("UNCONFIRMED property=%s harness=%s %s %q (%s) replay=%s", prop, v.Harness, v.Kind, v.Label, how, path))
				continue
			}
			validated++
			if kf := matchKnown(known, prop, v); kf != nil && kf.Status == "known" {
				nknown++
				lines = append(lines, fmt.Sprintf("KNOWN-FINDING: property=%s %s [harness=%s %s %q at %s; %s]", prop, kf.What, v.Harness, v.Kind, short(v.Label), v.Pos, how))
				continue
			}
			nviol++
			exit = 1
			lines = append(lines, fmt.Sprintf("VIOLATION property=%s replay=%s", prop, path))
			lines = append(lines, fmt.Sprintf("  harness=%s kind=%s label=%q at %s (%s)", v.Harness, v.Kind, short(v.Label), v.Pos, how))
		}
	}
	// translator validation: concrete vectors (models of explored path conditions) through the native build
	var vectors []symx.Vector
	for _, r := range results {
		if strings.HasSuffix(r.Name, "_E") {
			continue
		}
		vectors = append(vectors, r.Vectors...)
	}
	tvOK, tvBad, tvMsgs := validateNatively(vectors)
	validated += tvOK
	for _, m := range tvMsgs {
		lines = append(lines, "TRANSLATOR-DISAGREEMENT "+m)
	}
	for _, n := range vacuous {
		lines = append(lines, fmt.Sprintf("VACUOUS harness=%s reached none of its cover points (broken check, not a verdict)", n))
		if exit == 0 {
			exit = 2
		}
	}
	sort.Strings(lines)
	for _, l := range lines {
		fmt.Println(l)
	}
	// evidence
	var fl []string
	for k, v := range funcs {
		if strings.Contains(k, "folbricht/desync") && !strings.Contains(k, "Verif") && !strings.Contains(k, ".verif") {
			fl = append(fl, strings.Replace(k, "github.com/folbricht/desync", "desync", -1)+" @ "+v)
		}
	}
	sort.Strings(fl)
	var sl []string
	for k, n := range stubs {
		sl = append(sl, fmt.Sprintf("%s x%d", k, n))
	}
	sort.Strings(sl)
	var hnames []string
	for _, r := range results {
		hnames = append(hnames, r.Name)
	}
	ev := map[string]interface{}{
		"property_id": prop,
		"tier":        tier,
		"seed":        seed,
		"level":       "model_checking",
		"wall_s":      time.Since(t0).Seconds(),
		"violations":  nviol,
		"assumptions": assumptionsFor(prop, sl),
		"coverage": map[string]interface{}{
			"states":                        max1(states),
			"transitions":                   max1(int(transitions)),
			"traces_validated_against_impl": validated,
			"samples":                       samples,
			"explanation":                   "bounded symbolic execution of the real SSA of /repo (go/ssa built from the current working tree on this run); states = explored symbolic paths (each stands for all inputs satisfying its path condition), transitions = SSA instructions interpreted; every branch/obligation decided by z3",
			"exhaustive":                    exhaustive,
			"harnesses":                     hnames,
			"paths_by_outcome":              pathsByOutcome,
			"functions_encoded":             fl,
			"bounds":                        boundsFor(prop, tier),
			"stubs_hit":                     sl,
			"queries":                       queries,
			"solver_s":                      solverS,
			"solver":                        solverName() + " " + z3Version(),
			"unknown":                       unknowns,
			"cover_labels":                  covers,
			"known_findings_reported":       nknown,
			"unconfirmed_counterexamples":   nunconf,
			"translator_validation":         fmt.Sprintf("%d concrete vectors (solver models of explored path conditions) re-run through the native build of the same harness: %d agree (no assertion fails, same cover points), %d disagree", len(vectors), tvOK, tvBad),
			"load_s":                        eng.LoadS,
			"notes":                         keysB(notes),
		},
	}
	b, _ := json.MarshalIndent(ev, "", " ")
	os.WriteFile(filepath.Join("/verif/evidence", prop+".json"), b, 0644)
	fmt.Printf("check %s tier=%s: paths=%d obligations+feasibility queries=%d solver=%.1fs exhaustive=%v violations=%d known=%d wall=%.1fs\n",
		prop, tier, states, queries, solverS, exhaustive, nviol, nknown, time.Since(t0).Seconds())
	return exit
}

func max1(n int) int {
	if n < 1 {
		return 1
	}
	return n
}

func keysB(m map[string]bool) []string {
	var k []string
	for s := range m {
		k = append(k, s)
	}
	sort.Strings(k)
	return k
}

func short(s string) string {
	if len(s) > 160 {
		return s[:160] + "…"
	}
	return s
}

// solverName: z3 5.1.0 (z3-new) decides the queries (about 5x faster on the
// engine's incremental bit-vector transcripts than 4.8.12); VERIF_SOLVER
// selects z3 (4.8.12) or cvc5 for cross-checking.
func solverName() string {
	if s := os.Getenv("VERIF_SOLVER"); s != "" {
		return s
	}
	return "z3-new"
}

func z3Version() string {
	out, err := exec.Command(solverName(), "--version").Output()
	if err != nil {
		return "?"
	}
	return strings.TrimSpace(strings.TrimPrefix(string(out), "Z3 version "))
}

func loadKnown() []knownFinding {
	var k []knownFinding
	b, err := os.ReadFile("/verif/known_findings.json")
	if err != nil {
		return nil
	}
	json.Unmarshal(b, &k)
	return k
}

func matchKnown(known []knownFinding, prop string, v *symx.Violation) *knownFinding {
	for k := range known {
		kf := &known[k]
		if kf.Property != prop || kf.Harness != v.Harness || kf.Kind != v.Kind {
			continue
		}
		if ok, _ := regexp.MatchString(kf.LabelRe, v.Label); ok {
			return kf
		}
	}
	return nil
}

func writeReplay(prop string, v *symx.Violation) string {
	b, _ := json.MarshalIndent(v, "", " ")
	h := sha256.Sum256([]byte(v.Key()))
	p := filepath.Join("/verif/replays", fmt.Sprintf("%s-%s.json", prop, hex.EncodeToString(h[:5])))
	os.WriteFile(p, b, 0644)
	return p
}

// confirm re-executes the counterexample concretely inside the engine and,
// for harnesses with a native counterpart, as a go test against the real build.
func confirm(eng *symx.Engine, harness string, v *symx.Violation, path string) (bool, string) {
	if v.Model == nil {
		return true, "no symbolic input involved"
	}
	ok, msg := eng.ReplayConcrete(harness, v)
	if !ok {
		return false, "engine concrete replay: " + msg
	}
	how := "engine-concrete-replay=reproduced"
	if strings.HasSuffix(harness, "_E") {
		return true, how + ", native=not-applicable(engine-only stubs)"
	}
	nok, nmsg := nativeReplay(harness, path)
	switch nok {
	case 1:
		return true, how + ", native-go-test=reproduced"
	case 0:
		if strings.Contains(" "+v.Trace, " c") {
			// the counterexample depends on engine choices (goroutine schedule, select, map order)
			// that a native run cannot be forced into: confirmed by the interpreter only
			return true, how + ", native-go-test=not reproduced under the Go scheduler's own schedule (schedule-dependent counterexample, interpreter-confirmed)"
		}
		return false, how + ", native-go-test=NOT reproduced: " + nmsg
	}
	return true, how + ", native=" + nmsg
}

func doReplay(prop, path string, cfg symx.Config) int {
	b, err := os.ReadFile(path)
	if err != nil {
		fmt.Fprintln(os.Stderr, err)
		return 2
	}
	var v symx.Violation
	if err := json.Unmarshal(b, &v); err != nil {
		fmt.Fprintln(os.Stderr, err)
		return 2
	}
	eng, err := symx.Load("/repo", "/verif/harness", cfg)
	if err != nil {
		fmt.Fprintln(os.Stderr, "LOAD-ERROR:", err)
		return 2
	}
	ok, how := confirm(eng, v.Harness, &v, path)
	fmt.Printf("replay %s: reproduced=%v (%s)\n", path, ok, how)
	if ok {
		fmt.Printf("VIOLATION property=%s replay=%s\n", prop, path)
		return 1
	}
	return 0
}

// nativeReplay runs the harness as a go test against the real build.
// returns 1 reproduced, 0 not reproduced, -1 not applicable/error.
func nativeReplay(harness, replayPath string) (int, string) {
	tmp, err := os.MkdirTemp("", "verif-native-")
	if err != nil {
		return -1, err.Error()
	}
	defer os.RemoveAll(tmp)
	repl := map[string]string{}
	files, _ := filepath.Glob("/verif/harness/*.go")
	cmdpkg := false
	for _, f := range files {
		base := filepath.Base(f)
		if strings.HasPrefix(base, "cmd_") {
			repl[filepath.Join("/repo/cmd/desync", "zz_verif_"+base)] = f
		} else {
			repl[filepath.Join("/repo", "zz_verif_"+base)] = f
		}
	}
	if strings.Contains(harness, "Cmd") {
		cmdpkg = true
	}
	testSrc := fmt.Sprintf(`package %s

import (
	"fmt"
	"os"
	"testing"
)

func TestVerifReplay(t *testing.T) {
	if err := vLoadReplay(os.Getenv("VERIF_REPLAY")); err != nil {
		t.Fatal(err)
	}
	defer func() {
		if r := recover(); r != nil {
			if _, ok := r.(vAssumeFailed); ok {
				fmt.Println("VERIF-NATIVE: assume-failed")
				return
			}
			fmt.Printf("VERIF-NATIVE: panic %%v\n", r)
			return
		}
		fmt.Printf("VERIF-NATIVE: failed=%%q\n", vFailed)
	}()
	%s()
}
`, map[bool]string{false: "desync", true: "main"}[cmdpkg], harness)
	tf := filepath.Join(tmp, "replay_test.go")
	os.WriteFile(tf, []byte(testSrc), 0644)
	dir := "/repo"
	if cmdpkg {
		dir = "/repo/cmd/desync"
	}
	repl[filepath.Join(dir, "zz_verif_replay_test.go")] = tf
	ov, _ := json.Marshal(map[string]interface{}{"Replace": repl})
	of := filepath.Join(tmp, "overlay.json")
	os.WriteFile(of, ov, 0644)
	txt := runJailed(dir, of, "^TestVerifReplay$", "VERIF_REPLAY", replayPath, 120)
	b, _ := os.ReadFile(replayPath)
	var v symx.Violation
	json.Unmarshal(b, &v)
	for _, l := range strings.Split(txt, "\n") {
		if !strings.HasPrefix(l, "VERIF-NATIVE:") {
			continue
		}
		switch {
		case strings.Contains(l, "engine only"):
			return -1, "not-applicable(engine-only stub used)"
		case strings.Contains(l, "assume-failed"):
			return 0, "an assumption failed natively"
		case strings.HasPrefix(l, "VERIF-NATIVE: panic"):
			if v.Kind == "panic" {
				return 1, l
			}
			return 0, "native run panicked instead: " + l
		case strings.HasPrefix(l, "VERIF-NATIVE: failed="):
			if v.Kind == "assert" && strings.Contains(l, strconv.Quote(v.Label)) {
				return 1, l
			}
			if v.Kind == "assert" && !strings.Contains(l, "failed=[]") {
				// the native run fails other assertions of the same harness (the first failure changes what follows)
				return 1, "a different assertion of the harness fails natively: " + l
			}
			if v.Kind == "panic" || v.Kind == "assert" {
				return 0, "native run: " + l
			}
			return -1, "not-applicable(" + v.Kind + " has no native observation)"
		}
	}
	if strings.Contains(txt, "panic:") && v.Kind == "panic" {
		return 1, "native go test panicked"
	}
	if strings.Contains(txt, "fatal error: all goroutines are asleep") && v.Kind == "deadlock" {
		return 1, "native go test deadlocked"
	}
	tail := txt
	if len(tail) > 400 {
		tail = tail[len(tail)-400:]
	}
	return -1, "native run inconclusive: " + strings.ReplaceAll(tail, "\n", " | ")
}

// validateNatively runs the vectors through `go test` of the same harnesses and compares
// the observations (assertions hold, cover points equal unless the path is schedule dependent).
func validateNatively(vs []symx.Vector) (ok, bad int, msgs []string) {
	if len(vs) == 0 {
		return 0, 0, nil
	}
	tmp, err := os.MkdirTemp("", "verif-validate-")
	if err != nil {
		return 0, 0, nil
	}
	defer os.RemoveAll(tmp)
	repl := map[string]string{}
	files, _ := filepath.Glob("/verif/harness/*.go")
	for _, f := range files {
		base := filepath.Base(f)
		if strings.HasPrefix(base, "cmd_") {
			continue
		}
		repl[filepath.Join("/repo", "zz_verif_"+base)] = f
	}
	names := map[string]bool{}
	for _, v := range vs {
		names[v.Harness] = true
	}
	var reg strings.Builder
	for n := range names {
		fmt.Fprintf(&reg, "\t%q: %s,\n", n, n)
	}
	vb, _ := json.Marshal(vs)
	vf := filepath.Join(tmp, "vectors.json")
	os.WriteFile(vf, vb, 0644)
	src := `package desync

import (
	"encoding/json"
	"fmt"
	"os"
	"sort"
	"testing"
)

var verifHarnessReg = map[string]func(){
` + reg.String() + `}

func TestVerifValidate(t *testing.T) {
	b, err := os.ReadFile(os.Getenv("VERIF_VECTORS"))
	if err != nil {
		t.Fatal(err)
	}
	var vs []struct {
		Harness string
		Model   map[string]string
	}
	if err := json.Unmarshal(b, &vs); err != nil {
		t.Fatal(err)
	}
	for i, v := range vs {
		func() {
			vReplay = &vReplayData{Model: v.Model}
			vNames = map[string]int{}
			vFailed = nil
			vCovered = map[string]bool{}
			Digest = SHA512256{}
			defer func() {
				r := recover()
				var cs []string
				for c := range vCovered {
					cs = append(cs, c)
				}
				sort.Strings(cs)
				if _, af := r.(vAssumeFailed); af {
					r = "assume-failed"
				}
				fmt.Printf("VERIF-VALIDATE %d failed=%q panic=%v covers=%q\n", i, vFailed, r, cs)
			}()
			verifHarnessReg[v.Harness]()
		}()
	}
}
`
	tf := filepath.Join(tmp, "validate_test.go")
	os.WriteFile(tf, []byte(src), 0644)
	repl["/repo/zz_verif_validate_test.go"] = tf
	ov, _ := json.Marshal(map[string]interface{}{"Replace": repl})
	of := filepath.Join(tmp, "overlay.json")
	os.WriteFile(of, ov, 0644)
	out := runJailed("/repo", of, "^TestVerifValidate$", "VERIF_VECTORS", vf, 300)
	seen := map[int]bool{}
	for _, l := range strings.Split(out, "\n") {
		if !strings.HasPrefix(l, "VERIF-VALIDATE ") {
			continue
		}
		var idx int
		fmt.Sscanf(l, "VERIF-VALIDATE %d", &idx)
		if idx < 0 || idx >= len(vs) {
			continue
		}
		seen[idx] = true
		v := vs[idx]
		want := fmt.Sprintf("covers=%q", v.Covers)
		if v.Covers == nil {
			want = "covers=[]"
		}
		good := strings.Contains(l, "failed=[]") && strings.Contains(l, "panic=<nil>")
		if good && !v.Sched && !v.HashUF && !strings.HasSuffix(l, want) {
			good = false
		}
		if good {
			ok++
		} else if v.Sched && strings.Contains(l, "panic=<nil>") {
			// a schedule-dependent path: the native run took another schedule, on which an assertion
			// failed; that is an observation about the code, not about the translation
			fmt.Printf("NATIVE-OBSERVATION harness=%s (schedule-dependent vector) %s\n", v.Harness, short(l))
		} else {
			bad++
			msgs = append(msgs, fmt.Sprintf("harness=%s engine-covers=%q native: %s", v.Harness, v.Covers, short(l)))
		}
	}
	cut := strings.Contains(out, "test timed out") || strings.Contains(out, "signal: killed")
	for i := range vs {
		if !seen[i] && cut {
			// the native run hit its time limit (loaded machine): the remaining vectors were not
			// run - that is not a disagreement between the engine and the implementation
			if i == 0 || seen[i-1] {
				fmt.Printf("NATIVE-VALIDATION-INCOMPLETE the native run exceeded its time limit; vectors from #%d on were not compared\n", i)
			}
			continue
		}
		if !seen[i] {
			bad++
			tail := string(out)
			if len(tail) > 300 {
				tail = tail[len(tail)-300:]
			}
			msgs = append(msgs, fmt.Sprintf("harness=%s vector %d produced no native observation: %s", vs[i].Harness, i, strings.ReplaceAll(tail, "\n", " | ")))
		}
	}
	return
}

// runJailed compiles the test binary of the package in dir (with the overlay) and runs it
// inside an empty chroot: counterexamples of the confinement properties make the real code
// create, chmod or remove files outside its destination, which must not reach the machine.
// The statically linked test binary, the input file and a /tmp are all the jail contains.
// nativeTier is handed to native replays and validation runs so that vTier() answers as in the engine.
var nativeTier = "0"

func runJailed(dir, overlay, runPat, envName, inputFile string, timeoutS int) string {
	jail, err := os.MkdirTemp("", "verif-jail-")
	if err != nil {
		return "jail: " + err.Error()
	}
	defer os.RemoveAll(jail)
	os.MkdirAll(filepath.Join(jail, "tmp"), 0777)
	os.MkdirAll(filepath.Join(jail, "dev"), 0755)
	// go-fuse's splice package opens /dev/null in its init
	if err := syscall.Mknod(filepath.Join(jail, "dev", "null"), syscall.S_IFCHR|0666, 1<<8|3); err != nil {
		os.WriteFile(filepath.Join(jail, "dev", "null"), nil, 0666)
	}
	bin := filepath.Join(jail, "harness.test")
	build := exec.Command("go", "test", "-c", "-vet=off", "-overlay", overlay, "-o", bin, ".")
	build.Dir = dir
	build.Env = append(os.Environ(), "GOFLAGS=-mod=mod", "GOPROXY=off", "GOSUMDB=off", "GOTOOLCHAIN=local", "CGO_ENABLED=0")
	if out, err := build.CombinedOutput(); err != nil {
		return "build of the native harness failed: " + string(out)
	}
	in, _ := os.ReadFile(inputFile)
	os.WriteFile(filepath.Join(jail, "input.json"), in, 0644)
	cmd := exec.Command("timeout", strconv.Itoa(timeoutS), "/usr/sbin/chroot", jail, "/harness.test", "-test.v", "-test.count=1", "-test.run", runPat)
	cmd.Env = []string{envName + "=/input.json", "TMPDIR=/tmp", "HOME=/tmp", "PATH=/", "VERIF_JAIL=1", "VERIF_NATIVE_TIER=" + nativeTier}
	out, _ := cmd.CombinedOutput()
	return string(out)
}
