package symx

import (
	"fmt"
	"go/token"
	"go/types"

	"verif/engine/smt"
)

// sym is a symbolic scalar: a bit-vector term whose width is that of its Go
// type, or a Bool term.  Signedness is taken from the static type at the use.
type sym struct{ t *smt.Term }

func isSym(v value) bool { _, ok := v.(sym); return ok }

// basicOf returns the underlying basic type of t (or nil).
func basicOf(t types.Type) *types.Basic {
	if t == nil {
		return nil
	}
	b, _ := t.Underlying().(*types.Basic)
	return b
}

func kindWidth(k types.BasicKind) int {
	switch k {
	case types.Bool, types.UntypedBool:
		return 0
	case types.Int8, types.Uint8:
		return 8
	case types.Int16, types.Uint16:
		return 16
	case types.Int32, types.Uint32, types.UntypedRune:
		return 32
	case types.Int, types.Int64, types.Uint, types.Uint64, types.Uintptr, types.UntypedInt:
		return 64
	}
	return -1
}

func kindSigned(k types.BasicKind) bool {
	switch k {
	case types.Int, types.Int8, types.Int16, types.Int32, types.Int64, types.UntypedInt, types.UntypedRune:
		return true
	}
	return false
}

// valKind returns the basic kind of a concrete scalar.
func valKind(v value) types.BasicKind {
	switch v.(type) {
	case bool:
		return types.Bool
	case int:
		return types.Int
	case int8:
		return types.Int8
	case int16:
		return types.Int16
	case int32:
		return types.Int32
	case int64:
		return types.Int64
	case uint:
		return types.Uint
	case uint8:
		return types.Uint8
	case uint16:
		return types.Uint16
	case uint32:
		return types.Uint32
	case uint64:
		return types.Uint64
	case uintptr:
		return types.Uintptr
	}
	return types.Invalid
}

// bitsOf returns the two's complement bits of a concrete integer/bool.
func bitsOf(v value) (uint64, bool) {
	switch x := v.(type) {
	case bool:
		if x {
			return 1, true
		}
		return 0, true
	case int:
		return uint64(x), true
	case int8:
		return uint64(x), true
	case int16:
		return uint64(x), true
	case int32:
		return uint64(x), true
	case int64:
		return uint64(x), true
	case uint:
		return uint64(x), true
	case uint8:
		return uint64(x), true
	case uint16:
		return uint64(x), true
	case uint32:
		return uint64(x), true
	case uint64:
		return x, true
	case uintptr:
		return uint64(x), true
	}
	return 0, false
}

// fromBits builds the concrete value of kind k from bits.
func fromBits(k types.BasicKind, b uint64) value {
	switch k {
	case types.Bool, types.UntypedBool:
		return b != 0
	case types.Int, types.UntypedInt:
		return int(b)
	case types.Int8:
		return int8(b)
	case types.Int16:
		return int16(b)
	case types.Int32, types.UntypedRune:
		return int32(b)
	case types.Int64:
		return int64(b)
	case types.Uint:
		return uint(b)
	case types.Uint8:
		return uint8(b)
	case types.Uint16:
		return uint16(b)
	case types.Uint32:
		return uint32(b)
	case types.Uint64:
		return b
	case types.Uintptr:
		return uintptr(b)
	}
	panic(fmt.Sprintf("fromBits: kind %v", k))
}

// term lifts a scalar value to a term.
func (i *interpreter) term(v value) *smt.Term {
	if s, ok := v.(sym); ok {
		return s.t
	}
	b, ok := bitsOf(v)
	if !ok {
		panic(fmt.Sprintf("term: not a scalar: %T", v))
	}
	return i.ps.ctx.Const(b, kindWidth(valKind(v)))
}

// lower turns a term back into a value: concrete when the term is constant.
func lower(t *smt.Term, k types.BasicKind) value {
	if t.IsConst() {
		return fromBits(k, t.V)
	}
	return sym{t}
}

// symBinop handles binary operators when at least one operand is symbolic.
// t is the static type of x, ty that of y.
func (i *interpreter) symBinop(fr *frame, op token.Token, t, ty types.Type, x, y value) value {
	c := i.ps.ctx
	b := basicOf(t)
	if b == nil {
		panic(fmt.Sprintf("symBinop on non-basic type %v", t))
	}
	k := b.Kind()
	if b.Info()&types.IsString != 0 {
		return i.strBinop(fr, op, x, y)
	}
	w := kindWidth(k)
	if w < 0 {
		panic(fmt.Sprintf("symbolic operand of unsupported kind %v (%s)", b, op))
	}
	signed := kindSigned(k)
	tx := i.term(x)
	var tyT *smt.Term
	if op != token.SHL && op != token.SHR {
		tyT = i.term(y)
	}
	switch op {
	case token.ADD:
		return lower(c.Bin(smt.OpBvAdd, tx, tyT), k)
	case token.SUB:
		return lower(c.Bin(smt.OpBvSub, tx, tyT), k)
	case token.MUL:
		return lower(c.Bin(smt.OpBvMul, tx, tyT), k)
	case token.QUO, token.REM:
		// division by zero is a run-time panic
		nz := c.Not(c.Eq(tyT, c.Const(0, w)))
		if !i.branchCheck(fr, nz, "integer divide by zero") {
			panic(runtimeErr("integer divide by zero"))
		}
		var o smt.Op
		switch {
		case op == token.QUO && signed:
			o = smt.OpBvSdiv
		case op == token.QUO:
			o = smt.OpBvUdiv
		case signed:
			o = smt.OpBvSrem
		default:
			o = smt.OpBvUrem
		}
		return lower(c.Bin(o, tx, tyT), k)
	case token.AND:
		if w == 0 {
			return lower(c.And(tx, tyT), k)
		}
		return lower(c.Bin(smt.OpBvAnd, tx, tyT), k)
	case token.OR:
		if w == 0 {
			return lower(c.Or(tx, tyT), k)
		}
		return lower(c.Bin(smt.OpBvOr, tx, tyT), k)
	case token.XOR:
		return lower(c.Bin(smt.OpBvXor, tx, tyT), k)
	case token.AND_NOT:
		return lower(c.Bin(smt.OpBvAnd, tx, c.BvNot(tyT)), k)
	case token.SHL, token.SHR:
		yb := basicOf(ty)
		yk := valKind(y)
		if yb != nil {
			yk = yb.Kind()
		}
		ys := i.term(y)
		yw := ys.W
		if kindSigned(yk) {
			nonneg := c.Not(c.Cmp(smt.OpBvSlt, ys, c.Const(0, yw)))
			if !i.branchCheck(fr, nonneg, "negative shift amount") {
				panic(runtimeErr("negative shift amount"))
			}
		}
		// bring the count to x's width, saturating
		var cnt *smt.Term
		switch {
		case yw == w:
			cnt = ys
		case yw < w:
			cnt = c.Zext(ys, w)
		default:
			big := c.Not(c.Cmp(smt.OpBvUlt, ys, c.Const(uint64(w), yw)))
			cnt = c.Ite(big, c.Const(uint64(w), w), c.Extract(ys, w-1, 0))
		}
		var o smt.Op
		switch {
		case op == token.SHL:
			o = smt.OpBvShl
		case signed:
			o = smt.OpBvAshr
		default:
			o = smt.OpBvLshr
		}
		return lower(c.Bin(o, tx, cnt), k)
	case token.EQL:
		return lower(c.Eq(tx, tyT), types.Bool)
	case token.NEQ:
		return lower(c.Not(c.Eq(tx, tyT)), types.Bool)
	case token.LSS, token.LEQ, token.GTR, token.GEQ:
		a, bb := tx, tyT
		if op == token.GTR || op == token.GEQ {
			a, bb = bb, a
		}
		var o smt.Op
		strict := op == token.LSS || op == token.GTR
		switch {
		case strict && signed:
			o = smt.OpBvSlt
		case strict:
			o = smt.OpBvUlt
		case signed:
			o = smt.OpBvSle
		default:
			o = smt.OpBvUle
		}
		return lower(c.Cmp(o, a, bb), types.Bool)
	}
	panic(fmt.Sprintf("symBinop: invalid op %s", op))
}

// symConv converts symbolic integer x of type src to dst.
func (i *interpreter) symConv(dst, src types.Type, x sym) value {
	c := i.ps.ctx
	sb, db := basicOf(src), basicOf(dst)
	if sb == nil || db == nil {
		panic(fmt.Sprintf("symbolic conversion %v -> %v", src, dst))
	}
	if db.Info()&types.IsString != 0 {
		// string(rune) of a symbolic value: concretise
		panic("symbolic integer to string conversion")
	}
	dw := kindWidth(db.Kind())
	if dw <= 0 || x.t.W == 0 {
		panic(fmt.Sprintf("symbolic conversion %v -> %v unsupported", src, dst))
	}
	var t *smt.Term
	if kindSigned(sb.Kind()) {
		t = c.Sext(x.t, dw)
	} else {
		t = c.Zext(x.t, dw)
	}
	return lower(t, db.Kind())
}

// symEq builds the term for x == y of static type t, recursing into
// aggregates.  Returns a Bool term.
func (i *interpreter) symEq(t types.Type, x, y value) *smt.Term {
	c := i.ps.ctx
	switch x := x.(type) {
	case sym:
		return c.Eq(x.t, i.term(y))
	case array:
		ya := y.(array)
		et := t.Underlying().(*types.Array).Elem()
		if b := basicOf(et); b != nil && kindWidth(b.Kind()) == 8 && len(x) > 1 && len(x) == len(ya) && (hasSym(x) || hasSym(ya)) {
			// byte arrays (chunk IDs): compare as one wide word; adjacent extracts of a hash
			// application fuse back into the application term
			xs := make([]*smt.Term, len(x))
			ys := make([]*smt.Term, len(x))
			for k := range x {
				xs[k], ys[k] = i.term(x[k]), i.term(ya[k])
			}
			return c.Eq(c.Concat(xs...), c.Concat(ys...))
		}
		r := c.True
		for k := range x {
			r = c.And(r, i.symEq(et, x[k], ya[k]))
			if r == c.False {
				return r
			}
		}
		return r
	case structure:
		ys := y.(structure)
		st := t.Underlying().(*types.Struct)
		r := c.True
		for k := range x {
			if st.Field(k).Name() == "_" {
				continue
			}
			r = c.And(r, i.symEq(st.Field(k).Type(), x[k], ys[k]))
			if r == c.False {
				return r
			}
		}
		return r
	case iface:
		yi := y.(iface)
		if !sameType(x.t, yi.t) {
			return c.False
		}
		if x.t == nil {
			return c.True
		}
		return i.symEq(x.t, x.v, yi.v)
	case *symstr:
		return i.strEqTerm(x, y)
	case string:
		if ys, ok := y.(*symstr); ok {
			return i.strEqTerm(ys, x)
		}
	}
	if _, ok := y.(sym); ok {
		return c.Eq(i.term(x), y.(sym).t)
	}
	return c.Bool(equals(t, x, y))
}

// hasSym reports whether v (scalar or comparable aggregate) contains symbolic parts.
func hasSym(v value) bool {
	switch v := v.(type) {
	case sym, *symstr:
		return true
	case array:
		for _, e := range v {
			if hasSym(e) {
				return true
			}
		}
	case structure:
		for _, e := range v {
			if hasSym(e) {
				return true
			}
		}
	case iface:
		return hasSym(v.v)
	}
	return false
}

type runtimeErr string

func (e runtimeErr) Error() string { return "runtime error: " + string(e) }
func (e runtimeErr) RuntimeError() {}
