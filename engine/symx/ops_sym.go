package symx

import (
	"bytes"
	"fmt"
	"go/token"
	"go/types"
	"os"
	"unicode/utf8"

	"golang.org/x/tools/go/ssa"
	"verif/engine/smt"
)

// symref is the address of cells[idx] for a symbolic idx that is only ever loaded.
type symref struct {
	cells  []value
	idx    *smt.Term
	signed bool
}

// ufref is the address of an element of a table that the harness declared uninterpreted.
type ufref struct {
	name string
	arg  *smt.Term
}

func (i *interpreter) binop(fr *frame, op token.Token, t, ty types.Type, x, y value) value {
	_, xs := x.(sym)
	_, ys := y.(sym)
	_, xss := x.(*symstr)
	_, yss := y.(*symstr)
	if xs || ys || xss || yss {
		return i.symBinop(fr, op, t, ty, x, y)
	}
	if (op == token.EQL || op == token.NEQ) && (hasSym(x) || hasSym(y)) {
		e := i.symEq(t, x, y)
		if op == token.NEQ {
			e = i.ps.ctx.Not(e)
		}
		return lower(e, types.Bool)
	}
	if op == token.SHL || op == token.SHR {
		if _, ok := asUnsigned(y); !ok {
			panic(runtimeErr("negative shift amount"))
		}
	}
	if op == token.QUO || op == token.REM {
		if b, ok := bitsOf(y); ok && b == 0 && basicOf(t) != nil && basicOf(t).Info()&types.IsInteger != 0 {
			panic(runtimeErr("integer divide by zero"))
		}
	}
	return binopC(op, t, x, y)
}

func (i *interpreter) unop(fr *frame, instr *ssa.UnOp, x value) value {
	c := i.ps.ctx
	switch instr.Op {
	case token.ARROW:
		ch, _ := x.(*channel)
		v, ok := i.chanRecv(fr, ch)
		if !ok {
			v = zero(instr.X.Type().Underlying().(*types.Chan).Elem())
		}
		if instr.CommaOk {
			return tuple{v, ok}
		}
		return v
	case token.MUL:
		switch p := x.(type) {
		case *value:
			if p == nil {
				panic(runtimeErr("invalid memory address or nil pointer dereference"))
			}
			return load(mustDeref(instr.X.Type()), p)
		case *symref:
			return i.symLoad(fr, p)
		case *ufref:
			return lower(i.ps.ctx.App("UF32_"+p.name, 32, p.arg), types.Uint32)
		}
		panic(fmt.Sprintf("load from %T", x))
	}
	if s, ok := x.(sym); ok {
		k := basicOf(instr.X.Type()).Kind()
		switch instr.Op {
		case token.NOT:
			return lower(c.Not(s.t), types.Bool)
		case token.SUB:
			return lower(c.BvNeg(s.t), k)
		case token.XOR:
			return lower(c.BvNot(s.t), k)
		}
	}
	return unopC(instr, x)
}

func (i *interpreter) conv(fr *frame, dst, src types.Type, x value) value {
	ud, us := dst.Underlying(), src.Underlying()
	switch xv := x.(type) {
	case sym:
		if db := basicOf(dst); db != nil && db.Info()&types.IsString != 0 {
			// string(rune): concretise
			v := i.concretise(fr, xv.t, "string(rune)")
			return convC(dst, src, fromBits(basicOf(src).Kind(), v))
		}
		if db := basicOf(dst); db != nil && db.Info()&types.IsFloat != 0 {
			i.abort(outUnsupported, "symbolic integer to float conversion at %s", i.posOf(fr))
		}
		return i.symConv(dst, src, xv)
	case *symstr:
		if sl, ok := ud.(*types.Slice); ok {
			if basicOf(sl.Elem()).Kind() == types.Byte {
				return append([]value(nil), xv.b...)
			}
			i.abort(outUnsupported, "[]rune(symbolic string)")
		}
		return xv
	case []value:
		if _, ok := us.(*types.Slice); ok {
			if db := basicOf(dst); db != nil && db.Info()&types.IsString != 0 {
				if basicOf(us.(*types.Slice).Elem()).Kind() == types.Byte {
					return mkstr(append([]value(nil), xv...))
				}
			}
		}
	case string:
		if sl, ok := ud.(*types.Slice); ok && basicOf(sl.Elem()).Kind() == types.Byte {
			return strBytes(xv)
		}
	}
	return convC(dst, src, x)
}

// slice returns x[lo:hi:max]; symbolic bounds are checked once and then concretised.
func (i *interpreter) slice(fr *frame, x, lo, hi, max value) value {
	var Len, Cap int
	switch x := x.(type) {
	case string:
		Len, Cap = len(x), len(x)
	case *symstr:
		Len, Cap = len(x.b), len(x.b)
	case []value:
		Len, Cap = len(x), cap(x)
	case *value:
		if x == nil {
			panic(runtimeErr("invalid memory address or nil pointer dereference"))
		}
		a := (*x).(array)
		Len, Cap = len(a), len(a)
	}
	_, ls := lo.(sym)
	_, hs := hi.(sym)
	_, ms := max.(sym)
	if ls || hs || ms {
		c := i.ps.ctx
		tl, th, tm := c.Const(0, 64), c.Const(uint64(Len), 64), c.Const(uint64(Cap), 64)
		if lo != nil {
			tl = i.term(lo)
		}
		if hi != nil {
			th = i.term(hi)
		}
		if max != nil {
			tm = i.term(max)
		}
		// 0 <= lo <= hi <= max <= cap  (as unsigned: a negative value is huge)
		ok := c.And(c.Cmp(smt.OpBvUle, tl, th), c.And(c.Cmp(smt.OpBvUle, th, tm), c.Cmp(smt.OpBvUle, tm, c.Const(uint64(Cap), 64))))
		if !i.branchCheck(fr, ok, "slice bounds") {
			panic(runtimeErr("slice bounds out of range"))
		}
		if ls {
			lo = int(i.concretiseRange(fr, tl, 0, uint64(Cap), "slice low"))
		}
		if hs {
			l0 := uint64(0)
			if lo != nil {
				l0 = uint64(asInt64(lo))
			}
			hi = int(i.concretiseRange(fr, th, l0, uint64(Cap), "slice high"))
		}
		if ms {
			max = int(i.concretiseRange(fr, tm, 0, uint64(Cap), "slice max"))
		}
	}
	l := int64(0)
	if lo != nil {
		l = asInt64(lo)
	}
	h := int64(Len)
	if hi != nil {
		h = asInt64(hi)
	}
	m := int64(Cap)
	if max != nil {
		m = asInt64(max)
	}
	if l < 0 || h < l || m < h || m > int64(Cap) {
		panic(runtimeErr(fmt.Sprintf("slice bounds out of range [%d:%d:%d] with capacity %d", l, h, m, Cap)))
	}
	switch x := x.(type) {
	case string:
		return x[l:h]
	case *symstr:
		return mkstr(x.b[l:h:h])
	case []value:
		if x == nil {
			return []value(nil)
		}
		return x[l:h:m]
	case *value:
		a := (*x).(array)
		return []value(a)[l:h:m]
	}
	panic(fmt.Sprintf("slice: unexpected X type: %T", x))
}

// idx64 widens an index term to 64 bits according to its static type.
func (i *interpreter) idx64(t *smt.Term, signed bool) *smt.Term {
	c := i.ps.ctx
	if t.W == 64 {
		return t
	}
	if signed {
		return c.Sext(t, 64)
	}
	return c.Zext(t, 64)
}

func (i *interpreter) symIndex(fr *frame, s sym, idxType types.Type, n int) int {
	c := i.ps.ctx
	t := i.idx64(s.t, kindSigned(basicOf(idxType).Kind()))
	if !i.branchCheck(fr, c.Cmp(smt.OpBvUlt, t, c.Const(uint64(n), 64)), "index") {
		panic(runtimeErr(fmt.Sprintf("index out of range [symbolic] with length %d", n)))
	}
	return int(i.concretiseRange(fr, t, 0, uint64(n-1), "index"))
}

func (i *interpreter) symLoad(fr *frame, r *symref) value {
	c := i.ps.ctx
	n := len(r.cells)
	t := i.idx64(r.idx, r.signed)
	if !i.branchCheck(fr, c.Cmp(smt.OpBvUlt, t, c.Const(uint64(n), 64)), "index") {
		panic(runtimeErr(fmt.Sprintf("index out of range [symbolic] with length %d", n)))
	}
	// scalar cells: ite chain
	k := types.Invalid
	scalar := true
	for _, cell := range r.cells {
		if _, ok := cell.(sym); ok {
			continue
		}
		if vk := valKind(cell); vk != types.Invalid {
			k = vk
			continue
		}
		scalar = false
		break
	}
	if !scalar || n == 0 {
		return r.cells[int(i.concretise(fr, t, "index of aggregate"))]
	}
	if k == types.Invalid {
		// all symbolic: infer from width
		switch r.cells[0].(sym).t.W {
		case 0:
			k = types.Bool
		case 8:
			k = types.Uint8
		case 16:
			k = types.Uint16
		case 32:
			k = types.Uint32
		default:
			k = types.Uint64
		}
	}
	res := i.term(r.cells[n-1])
	for j := n - 2; j >= 0; j-- {
		res = c.Ite(c.Eq(t, c.Const(uint64(j), 64)), i.term(r.cells[j]), res)
	}
	return lower(res, k)
}

func (i *interpreter) storeAt(fr *frame, T types.Type, addr value, v value) {
	p, ok := addr.(*value)
	if !ok {
		panic(fmt.Sprintf("engine: store through %T", addr))
	}
	if p == nil {
		panic(runtimeErr("invalid memory address or nil pointer dereference"))
	}
	store(T, p, v)
}

const maxModelAlloc = 1 << 22

// makeLen validates and concretises a make() length, feeding the allocation monitor.
func (i *interpreter) makeLen(fr *frame, v value, elem types.Type, what string) int {
	ps := i.ps
	esz := i.sizes.Sizeof(elem)
	if esz == 0 {
		esz = 1
	}
	if s, ok := v.(sym); ok {
		c := ps.ctx
		t := i.idx64(s.t, true)
		lim := uint64(1<<47) / uint64(esz)
		if !i.branchCheck(fr, c.Cmp(smt.OpBvUle, t, c.Const(lim, 64)), "makeslice") {
			panic(runtimeErr("makeslice: len out of range"))
		}
		if ps.inputLen >= 0 {
			bound := uint64(2*int64(ps.inputLen)+ps.allocSlack) / uint64(esz)
			okc := c.Cmp(smt.OpBvUle, t, c.Const(bound, 64))
			if !ps.replaying() {
				if ps.check(c.Not(okc)) == smt.Sat {
					ps.sol.Push()
					ps.sol.Assert(c.Not(okc))
					ps.sol.Check()
					i.violation(fr, "alloc", fmt.Sprintf("allocation of attacker-chosen size (more than 2*%d+%d bytes) in %s", ps.inputLen, ps.allocSlack, fr.fn), true)
					ps.sol.Pop()
				}
			}
			i.assume(fr, lower(okc, types.Bool))
		}
		n := i.concretise(fr, t, what)
		if n > maxModelAlloc {
			i.abort(outBound, "allocation of %d elements is too large to model at %s", n, i.posOf(fr))
		}
		return int(n)
	}
	n := asInt64(v)
	if n < 0 || uint64(n) > uint64(1<<47)/uint64(esz) {
		panic(runtimeErr("makeslice: len out of range"))
	}
	if ps.inputLen >= 0 && n*esz > 2*int64(ps.inputLen)+ps.allocSlack {
		i.violation(fr, "alloc", fmt.Sprintf("allocation of %d bytes for an input of %d bytes in %s", n*esz, ps.inputLen, fr.fn), false)
	}
	if n > maxModelAlloc {
		i.abort(outBound, "allocation of %d elements is too large to model at %s", n, i.posOf(fr))
	}
	return int(n)
}

func (i *interpreter) mapKey(fr *frame, m *hashmap, k value) value { return k }

func (i *interpreter) lookup(fr *frame, instr *ssa.Lookup, x, idx value) value {
	switch x := x.(type) {
	case *hashmap:
		v, ok := x.lookup(i, fr, idx)
		if !ok {
			v = zero(instr.X.Type().Underlying().(*types.Map).Elem())
		}
		if instr.CommaOk {
			return tuple{v, ok}
		}
		return v
	case string, *symstr:
		cells := strBytes(x)
		if s, ok := idx.(sym); ok {
			return i.symLoad(fr, &symref{cells: cells, idx: s.t, signed: kindSigned(basicOf(instr.Index.Type()).Kind())})
		}
		return cells[asInt64(idx)]
	}
	panic(fmt.Sprintf("unexpected x type in Lookup: %T", x))
}

type stringIter struct {
	s string
	i int
}

func (it *stringIter) next() tuple {
	if it.i >= len(it.s) {
		return tuple{false, it.i, int32(0)}
	}
	r, n := utf8.DecodeRuneInString(it.s[it.i:])
	k := it.i
	it.i += n
	return tuple{true, k, r}
}

func (i *interpreter) rangeIter(fr *frame, x value, t types.Type) iter {
	switch x := x.(type) {
	case *hashmap:
		if x == nil {
			return &hashmapIter{}
		}
		ents := x.ents[:len(x.ents):len(x.ents)]
		if n := x.len(); n > 1 && i.ps.mapOrders {
			// iteration order is unspecified: explore every rotation (and the reverse)
			var live []*entry
			for _, e := range ents {
				if !e.dead {
					live = append(live, e)
				}
			}
			k := i.choose(n+1, "map-order")
			if k == n {
				rev := make([]*entry, n)
				for j := range live {
					rev[n-1-j] = live[j]
				}
				ents = rev
			} else if k > 0 {
				ents = append(append([]*entry(nil), live[k:]...), live[:k]...)
			}
		}
		return &hashmapIter{ents: ents}
	case string:
		return &stringIter{s: x}
	case *symstr:
		return &symstrIter{i: i, fr: fr, s: x}
	}
	panic(fmt.Sprintf("cannot range over %T", x))
}

func callBuiltin(caller *frame, callpos token.Pos, fn *ssa.Builtin, args []value) value {
	i := caller.i
	switch fn.Name() {
	case "append":
		if len(args) == 1 {
			return args[0]
		}
		switch s := args[1].(type) {
		case string, *symstr:
			return append(args[0].([]value), strBytes(s)...)
		}
		src := args[1].([]value)
		dst := args[0].([]value)
		// copy aggregates by value
		if len(src) > 0 {
			if _, ok := src[0].(structure); ok {
				et := fn.Type().(*types.Signature).Params().At(0).Type().Underlying().(*types.Slice).Elem()
				for k := range src {
					dst = append(dst, load(et, &src[k]))
				}
				return dst
			}
			if _, ok := src[0].(array); ok {
				et := fn.Type().(*types.Signature).Params().At(0).Type().Underlying().(*types.Slice).Elem()
				for k := range src {
					dst = append(dst, load(et, &src[k]))
				}
				return dst
			}
		}
		return append(dst, src...)

	case "copy":
		src := args[1]
		switch s := src.(type) {
		case string, *symstr:
			src = strBytes(s)
		}
		d, s := args[0].([]value), src.([]value)
		if len(s) > 0 {
			switch s[0].(type) {
			case structure, array:
				et := fn.Type().(*types.Signature).Params().At(0).Type().Underlying().(*types.Slice).Elem()
				n := len(d)
				if len(s) < n {
					n = len(s)
				}
				tmp := make([]value, n)
				for k := 0; k < n; k++ {
					tmp[k] = load(et, &s[k])
				}
				copy(d, tmp)
				return n
			}
		}
		return copy(d, s)

	case "close":
		ch, _ := args[0].(*channel)
		i.chanClose(caller, ch)
		return nil

	case "delete":
		m := args[0].(*hashmap)
		if m != nil {
			m.delete(i, caller, args[1])
		}
		return nil

	case "clear":
		switch m := args[0].(type) {
		case *hashmap:
			if m != nil {
				*m = *(makeMap(m.keyType, 0).(*hashmap))
			}
		case []value:
			et := fn.Type().(*types.Signature).Params().At(0).Type().Underlying().(*types.Slice).Elem()
			for k := range m {
				m[k] = zero(et)
			}
		}
		return nil

	case "print", "println":
		ln := fn.Name() == "println"
		var buf bytes.Buffer
		for k, arg := range args {
			if k > 0 && ln {
				buf.WriteRune(' ')
			}
			buf.WriteString(toString(arg))
		}
		if ln {
			buf.WriteRune('\n')
		}
		if i.eng.Cfg.Verbose {
			os.Stderr.Write(buf.Bytes())
		}
		return nil

	case "len":
		switch x := args[0].(type) {
		case string:
			return len(x)
		case *symstr:
			return len(x.b)
		case array:
			return len(x)
		case *value:
			return len((*x).(array))
		case []value:
			return len(x)
		case *hashmap:
			return x.len()
		case *channel:
			if x == nil {
				return 0
			}
			return len(x.buf)
		default:
			panic(fmt.Sprintf("len: illegal operand: %T", x))
		}

	case "cap":
		switch x := args[0].(type) {
		case array:
			return cap(x)
		case *value:
			return cap((*x).(array))
		case []value:
			return cap(x)
		case *channel:
			if x == nil {
				return 0
			}
			return x.cap
		default:
			panic(fmt.Sprintf("cap: illegal operand: %T", x))
		}

	case "min", "max":
		t := fn.Type().(*types.Signature).Params().At(0).Type()
		x := args[0]
		for _, y := range args[1:] {
			var less value
			if fn.Name() == "min" {
				less = i.binop(caller, token.LSS, t, t, y, x)
			} else {
				less = i.binop(caller, token.GTR, t, t, y, x)
			}
			switch l := less.(type) {
			case bool:
				if l {
					x = y
				}
			case sym:
				x = lower(i.ps.ctx.Ite(l.t, i.term(y), i.term(x)), basicOf(t).Kind())
			}
		}
		return x

	case "real":
		switch c := args[0].(type) {
		case complex64:
			return real(c)
		case complex128:
			return real(c)
		}
	case "imag":
		switch c := args[0].(type) {
		case complex64:
			return imag(c)
		case complex128:
			return imag(c)
		}
	case "complex":
		switch f := args[0].(type) {
		case float32:
			return complex(f, args[1].(float32))
		case float64:
			return complex(f, args[1].(float64))
		}

	case "panic":
		panic(targetPanic{args[0]})

	case "recover":
		return doRecover(caller)

	case "ssa:wrapnilchk":
		recv := args[0]
		if recv.(*value) == nil {
			panic(runtimeErr(fmt.Sprintf("value method (%s).%s called using nil *%s pointer", args[1], args[2], args[1])))
		}
		return recv

	case "ssa:deferstack":
		return &caller.defers
	}
	panic("unknown built-in: " + fn.Name())
}
