package symx

import (
	"fmt"
	"go/token"
	"go/types"

	"verif/engine/smt"
)

// symstr is a string of concrete length whose bytes may be symbolic.
// Immutable, like a Go string.
type symstr struct{ b []value }

// mkstr normalises: all-concrete bytes give a Go string.
func mkstr(b []value) value {
	for _, e := range b {
		if isSym(e) {
			return &symstr{b: b}
		}
	}
	bs := make([]byte, len(b))
	for k, e := range b {
		bs[k] = e.(byte)
	}
	return string(bs)
}

func strBytes(v value) []value {
	switch s := v.(type) {
	case string:
		out := make([]value, len(s))
		for k := 0; k < len(s); k++ {
			out[k] = s[k]
		}
		return out
	case *symstr:
		return s.b
	}
	panic(fmt.Sprintf("strBytes: %T", v))
}

func strLen(v value) int {
	switch s := v.(type) {
	case string:
		return len(s)
	case *symstr:
		return len(s.b)
	}
	panic(fmt.Sprintf("strLen: %T", v))
}

func (i *interpreter) strEqTerm(x *symstr, y value) *smt.Term {
	c := i.ps.ctx
	yb := strBytes(y)
	if len(x.b) != len(yb) {
		return c.False
	}
	r := c.True
	for k := range x.b {
		r = c.And(r, c.Eq(i.term(x.b[k]), i.term(yb[k])))
		if r == c.False {
			break
		}
	}
	return r
}

// strLess builds x < y lexicographically.
func (i *interpreter) strLessTerm(xb, yb []value) *smt.Term {
	c := i.ps.ctx
	// from the end: less_k = x[k]<y[k] || (x[k]==y[k] && less_{k+1}); base: len(x) < len(y) when prefix equal
	n := len(xb)
	if len(yb) < n {
		n = len(yb)
	}
	r := c.Bool(len(xb) < len(yb))
	for k := n - 1; k >= 0; k-- {
		a, b := i.term(xb[k]), i.term(yb[k])
		r = c.Or(c.Cmp(smt.OpBvUlt, a, b), c.And(c.Eq(a, b), r))
	}
	return r
}

func (i *interpreter) strBinop(fr *frame, op token.Token, x, y value) value {
	c := i.ps.ctx
	switch op {
	case token.ADD:
		return mkstr(append(append([]value(nil), strBytes(x)...), strBytes(y)...))
	case token.EQL, token.NEQ:
		var t *smt.Term
		if xs, ok := x.(*symstr); ok {
			t = i.strEqTerm(xs, y)
		} else {
			t = i.strEqTerm(y.(*symstr), x)
		}
		if op == token.NEQ {
			t = c.Not(t)
		}
		return lower(t, types.Bool)
	case token.LSS:
		return lower(i.strLessTerm(strBytes(x), strBytes(y)), types.Bool)
	case token.GTR:
		return lower(i.strLessTerm(strBytes(y), strBytes(x)), types.Bool)
	case token.LEQ:
		return lower(c.Not(i.strLessTerm(strBytes(y), strBytes(x))), types.Bool)
	case token.GEQ:
		return lower(c.Not(i.strLessTerm(strBytes(x), strBytes(y))), types.Bool)
	}
	panic("strBinop: " + op.String())
}

// symstrIter ranges over a symstr.  Only bytes < 0xC0 are supported in
// symbolic positions (ASCII, or a lone continuation byte = RuneError).
type symstrIter struct {
	i   *interpreter
	fr  *frame
	s   *symstr
	pos int
}

func (it *symstrIter) next() tuple {
	if it.pos >= len(it.s.b) {
		return tuple{false, it.pos, int32(0)}
	}
	k := it.pos
	b := it.s.b[k]
	it.pos++
	if cb, ok := b.(byte); ok {
		if cb < 0x80 {
			return tuple{true, k, int32(cb)}
		}
		if cb < 0xC0 {
			return tuple{true, k, int32(0xFFFD)}
		}
		it.i.abort(outUnsupported, "range over string with concrete multi-byte rune next to symbolic bytes")
	}
	c := it.i.ps.ctx
	t := b.(sym).t
	if !it.i.branch(it.fr, c.Cmp(smt.OpBvUlt, t, c.Const(0xC0, 8)), "symstr-rune") {
		it.i.abort(outUnsupported, "symbolic multi-byte rune")
	}
	if it.i.branch(it.fr, c.Cmp(smt.OpBvUlt, t, c.Const(0x80, 8)), "symstr-rune") {
		return tuple{true, k, lower(c.Zext(t, 32), types.Int32)}
	}
	return tuple{true, k, int32(0xFFFD)}
}
