package symx

type modelFS struct{}

func newModelFS() *modelFS { return &modelFS{} }
