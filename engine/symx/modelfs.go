package symx

// An in-memory POSIX-like file system behind the os/syscall/xattr calls the
// target makes.  File contents are cell vectors (concrete length, possibly
// symbolic bytes); names may be symbolic strings (compared by forking).
// Every mutation is counted so that a harness can stop the world after the
// k-th one (crash injection) and fail individual calls (fault injection).

import (
	"fmt"
	"go/token"
	"go/types"
	"sort"
	"strings"

	"golang.org/x/tools/go/ssa"
	"verif/engine/smt"
)

const (
	nkFile = iota
	nkDir
	nkSymlink
	nkDevice // char/block/fifo/socket: mode bits tell
)

type mnode struct {
	kind    int
	data    []value
	names   []value // child names (string or *symstr), insertion order
	kids    []*mnode
	target  value
	mode    uint32 // os.FileMode bits (type bits + permissions)
	uid     value
	gid     value
	mtime   value // time.Time structure (nil: zero)
	xattrs  [][2]value
	rdev    uint64
	rdevSym value
	ino     int
	nlink   int
	blksize int64
}

type mfile struct {
	node    *mnode
	off     int64
	name    value
	flags   int
	closed  bool
	dirpos  int
	console bool
	appendM bool
}

type fsMutation struct {
	op   string
	path string
}

type modelFS struct {
	root     *mnode
	files    map[*value]*mfile
	nextIno  int
	muts     []fsMutation
	crashAt  int // -1: never
	faults   map[string]map[int]bool
	calls    map[string]int
	tmpSeq   int
	canClone bool
	cloneLog []cloneOp
	cloneEmu bool
	shortWrite int // -1 none; else the crash cuts the write after this many bytes
	shortFaults map[int]int // write call number -> bytes accepted before the write fails with ENOSPC
	blk        int64
}

type cloneOp struct {
	srcOff, length, dstOff int64
}

func newModelFS() *modelFS {
	fs := &modelFS{files: map[*value]*mfile{}, crashAt: -1, blk: 4096, faults: map[string]map[int]bool{}, calls: map[string]int{}, shortWrite: -1}
	fs.root = fs.newNode(nkDir, 0755|uint32(modeDir))
	return fs
}

const (
	modeDir        = 1 << 31
	modeSymlink    = 1 << 27
	modeDevice     = 1 << 26
	modeNamedPipe  = 1 << 25
	modeSocket     = 1 << 24
	modeSetuid     = 1 << 23
	modeSetgid     = 1 << 22
	modeCharDevice = 1 << 21
	modeSticky     = 1 << 20
)

func (fs *modelFS) newNode(kind int, mode uint32) *mnode {
	fs.nextIno++
	return &mnode{kind: kind, mode: mode, ino: fs.nextIno, uid: int(0), gid: int(0), nlink: 1, blksize: fs.blk}
}

type crashPanic struct{}

// mutate counts one file-system mutation; crash injection stops the world *before* the k-th mutation takes effect.
func (i *interpreter) fsMutate(fr *frame, op string, path value) {
	fs := i.ps.fs
	if fs.crashAt >= 0 && len(fs.muts) == fs.crashAt {
		i.ps.crashed = true
		panic(crashPanic{})
	}
	fs.muts = append(fs.muts, fsMutation{op, pathStr(path)})
}

// fsYield is the scheduling point of a mutating file-system call.  It comes before the call
// looks at the tree: a system call is atomic, so other goroutines run before it or after it,
// never between its checks and its effect.
func (i *interpreter) fsYield(fr *frame) {
	if len(i.ps.sched.gs) > 1 && !i.ps.fsNoYield {
		i.ps.sched.yield(fr)
	}
}

var fsMutatingOps = map[string]bool{
	"(*os.File).Write": true, "(*os.File).WriteString": true, "(*os.File).WriteAt": true, "(*os.File).readFrom": true,
	"(*os.File).Truncate": true, "os.Truncate": true, "(*os.File).Chmod": true, "os.Remove": true, "syscall.Unlink": true,
	"os.RemoveAll": true, "os.Mkdir": true, "os.MkdirAll": true, "os.Rename": true, "os.Symlink": true, "os.Chown": true,
	"os.Lchown": true, "os.Chtimes": true, "os.Chmod": true, "syscall.Chmod": true, "syscall.Mknod": true, "os.MkdirTemp": true,
	"github.com/pkg/xattr.LSet": true, "github.com/pkg/xattr.Set": true,
}

func pathStr(p value) string {
	switch s := p.(type) {
	case string:
		return s
	case *symstr:
		var sb strings.Builder
		for _, b := range s.b {
			if c, ok := b.(byte); ok {
				sb.WriteByte(c)
			} else {
				sb.WriteByte('?')
			}
		}
		return sb.String()
	}
	return "?"
}

// fault reports whether the harness asked this call of op to fail.
func (i *interpreter) fsFault(op string) bool {
	fs := i.ps.fs
	n := fs.calls[op]
	fs.calls[op] = n + 1
	return fs.faults[op][n] || fs.faults[op][-1]
}

// ---------------------------------------------------------------- errors and Go-level values

const (
	ePERM     = 1
	eNOENT    = 2
	eIO       = 5
	eNOSPC    = 28
	eBADF     = 9
	eEXIST    = 17
	eXDEV     = 18
	eNOTDIR   = 20
	eISDIR    = 21
	eINVAL    = 22
	eNOTEMPTY = 39
	eLOOP     = 40
	eNODATA   = 61
	eOPNOTSUPP = 95
)

func (i *interpreter) namedType(pkg, name string) types.Type {
	key := pkg + "." + name
	if t, ok := i.eng.tcache.Load(key); ok {
		return t.(types.Type)
	}
	p := i.prog.ImportedPackage(pkg)
	if p == nil {
		panic("engine: package not loaded: " + pkg)
	}
	m := p.Type(name)
	if m == nil {
		panic("engine: type not found: " + key)
	}
	t := m.Type()
	i.eng.tcache.Store(key, t)
	return t
}

func (i *interpreter) errno(n int) iface {
	return iface{t: i.namedType("syscall", "Errno"), v: uintptr(n)}
}

func fieldIndex(t types.Type, name string) int {
	st := t.Underlying().(*types.Struct)
	for k := 0; k < st.NumFields(); k++ {
		if st.Field(k).Name() == name {
			return k
		}
	}
	panic("engine: no field " + name + " in " + t.String())
}

func (i *interpreter) pathError(op string, path value, errno int) iface {
	T := i.namedType("io/fs", "PathError")
	s := zero(T).(structure)
	s[fieldIndex(T, "Op")] = op
	s[fieldIndex(T, "Path")] = path
	s[fieldIndex(T, "Err")] = i.errno(errno)
	var v value = s
	return iface{t: types.NewPointer(T), v: &v}
}

func (i *interpreter) linkError(op string, oldp, newp value, errno int) iface {
	T := i.namedType("os", "LinkError")
	s := zero(T).(structure)
	s[fieldIndex(T, "Op")] = op
	s[fieldIndex(T, "Old")] = oldp
	s[fieldIndex(T, "New")] = newp
	s[fieldIndex(T, "Err")] = i.errno(errno)
	var v value = s
	return iface{t: types.NewPointer(T), v: &v}
}

func stMode(n *mnode) uint32 {
	m := n.mode & 0777
	if n.mode&modeSetuid != 0 {
		m |= 04000
	}
	if n.mode&modeSetgid != 0 {
		m |= 02000
	}
	if n.mode&modeSticky != 0 {
		m |= 01000
	}
	switch {
	case n.kind == nkDir:
		m |= 0040000
	case n.kind == nkSymlink:
		m |= 0120000
	case n.kind == nkFile:
		m |= 0100000
	case n.mode&modeNamedPipe != 0:
		m |= 0010000
	case n.mode&modeSocket != 0:
		m |= 0140000
	case n.mode&modeCharDevice != 0:
		m |= 0020000
	default:
		m |= 0060000
	}
	return m
}

func (i *interpreter) fileInfo(name value, n *mnode) iface {
	T := i.namedType("os", "fileStat")
	s := zero(T).(structure)
	s[fieldIndex(T, "name")] = name
	size := int64(len(n.data))
	if n.kind == nkSymlink {
		size = int64(strLen(n.target))
	}
	if n.kind == nkDir {
		size = 4096
	}
	s[fieldIndex(T, "size")] = size
	s[fieldIndex(T, "mode")] = n.mode
	if n.mtime != nil {
		s[fieldIndex(T, "modTime")] = n.mtime
	}
	ST := i.namedType("syscall", "Stat_t")
	st := s[fieldIndex(T, "sys")].(structure)
	st[fieldIndex(ST, "Ino")] = uint64(n.ino)
	st[fieldIndex(ST, "Dev")] = uint64(1)
	st[fieldIndex(ST, "Nlink")] = uint64(n.nlink)
	st[fieldIndex(ST, "Mode")] = stMode(n)
	st[fieldIndex(ST, "Uid")] = i.u32(n.uid)
	st[fieldIndex(ST, "Gid")] = i.u32(n.gid)
	st[fieldIndex(ST, "Rdev")] = n.rdev
	if n.rdevSym != nil {
		st[fieldIndex(ST, "Rdev")] = lower(i.term(n.rdevSym), types.Uint64)
	}
	st[fieldIndex(ST, "Size")] = size
	st[fieldIndex(ST, "Blksize")] = n.blksize
	var v value = s
	return iface{t: types.NewPointer(T), v: &v}
}

func toU32(v value) value {
	switch x := v.(type) {
	case int:
		return uint32(x)
	case uint32:
		return x
	}
	return uint32(0)
}

// u32 truncates an owner id (int) to the kernel's 32-bit uid_t/gid_t.
func (i *interpreter) u32(v value) value {
	if s, ok := v.(sym); ok {
		return lower(i.ps.ctx.Extract(s.t, 31, 0), types.Uint32)
	}
	return toU32(v)
}

// ---------------------------------------------------------------- path resolution

// splitPath cuts a (possibly symbolic) path into components, forking on symbolic bytes that may be '/'.
func (i *interpreter) splitPath(fr *frame, p value) (comps []value, abs bool) {
	bs := strBytes(p)
	c := i.ps.ctx
	isSlash := func(b value) bool {
		if cb, ok := b.(byte); ok {
			return cb == '/'
		}
		return i.branch(fr, c.Eq(b.(sym).t, c.Const('/', 8)), "path-sep")
	}
	var cur []value
	for k, b := range bs {
		if isSlash(b) {
			if k == 0 {
				abs = true
			}
			if len(cur) > 0 {
				comps = append(comps, mkstr(cur))
				cur = nil
			}
			continue
		}
		cur = append(cur, b)
	}
	if len(cur) > 0 {
		comps = append(comps, mkstr(cur))
	}
	return
}

func (i *interpreter) nameEq(fr *frame, a, b value) bool {
	as, aok := a.(string)
	bs, bok := b.(string)
	if aok && bok {
		return as == bs
	}
	var t = i.ps.ctx.False
	if x, ok := a.(*symstr); ok {
		t = i.strEqTerm(x, b)
	} else {
		t = i.strEqTerm(b.(*symstr), a)
	}
	return i.branch(fr, t, "name-eq")
}

func (n *mnode) child(i *interpreter, fr *frame, name value) (*mnode, int) {
	for k, nm := range n.names {
		if i.nameEq(fr, nm, name) {
			return n.kids[k], k
		}
	}
	return nil, -1
}

type resolved struct {
	parent *mnode
	node   *mnode // nil if the last component does not exist
	name   value  // last component
	idx    int
	errno  int
}

// resolve walks path; follow decides whether a symlink in the last component is followed.
func (i *interpreter) resolve(fr *frame, path value, follow bool) resolved {
	return i.resolveFrom(fr, i.ps.fs.root, path, follow, 0)
}

func (i *interpreter) resolveFrom(fr *frame, start *mnode, path value, follow bool, depth int) resolved {
	if depth > 8 {
		return resolved{errno: eLOOP}
	}
	if strLen(path) == 0 {
		return resolved{errno: eNOENT}
	}
	// NUL bytes are rejected by the syscall layer
	for _, b := range strBytes(path) {
		if cb, ok := b.(byte); ok {
			if cb == 0 {
				return resolved{errno: eINVAL}
			}
		} else if i.branch(fr, i.ps.ctx.Eq(b.(sym).t, i.ps.ctx.Const(0, 8)), "path-nul") {
			return resolved{errno: eINVAL}
		}
	}
	comps, abs := i.splitPath(fr, path)
	fs := i.ps.fs
	cur := start
	if abs || cur == nil {
		cur = fs.root
	}
	// stack of ancestors for ".."
	anc := []*mnode{}
	if cur != fs.root {
		anc = i.ancestors(cur)
	}
	if len(comps) == 0 {
		return resolved{parent: cur, node: cur, name: "/"}
	}
	for k, comp := range comps {
		last := k == len(comps)-1
		if cur.kind != nkDir {
			return resolved{errno: eNOTDIR}
		}
		if i.nameEq(fr, comp, ".") {
			if last {
				return resolved{parent: cur, node: cur, name: "."}
			}
			continue
		}
		if i.nameEq(fr, comp, "..") {
			if len(anc) > 0 {
				cur = anc[len(anc)-1]
				anc = anc[:len(anc)-1]
			}
			if last {
				return resolved{parent: cur, node: cur, name: ".."}
			}
			continue
		}
		ch, idx := cur.child(i, fr, comp)
		if ch == nil {
			if last {
				return resolved{parent: cur, name: comp, idx: -1}
			}
			return resolved{errno: eNOENT}
		}
		if ch.kind == nkSymlink && (!last || follow) {
			r := i.resolveFrom(fr, cur, ch.target, true, depth+1)
			if r.errno != 0 {
				return r
			}
			if r.node == nil {
				if last {
					return r // dangling: creation goes to the link's target location
				}
				return resolved{errno: eNOENT}
			}
			if last {
				return r
			}
			anc = i.ancestors(r.node)
			cur = r.node
			continue
		}
		if last {
			return resolved{parent: cur, node: ch, name: comp, idx: idx}
		}
		anc = append(anc, cur)
		cur = ch
	}
	return resolved{errno: eNOENT}
}

// ancestors returns the chain root..parent of n (by search; trees are tiny).
func (i *interpreter) ancestors(n *mnode) []*mnode {
	var path []*mnode
	var rec func(cur *mnode) bool
	rec = func(cur *mnode) bool {
		if cur == n {
			return true
		}
		if cur.kind != nkDir {
			return false
		}
		path = append(path, cur)
		for _, k := range cur.kids {
			if rec(k) {
				return true
			}
		}
		path = path[:len(path)-1]
		return false
	}
	rec(i.ps.fs.root)
	return path
}

// pathOf returns a display path of node n.
func (i *interpreter) pathOf(n *mnode) string {
	var find func(cur *mnode, pfx string) (string, bool)
	find = func(cur *mnode, pfx string) (string, bool) {
		if cur == n {
			if pfx == "" {
				return "/", true
			}
			return pfx, true
		}
		for k, c := range cur.kids {
			if s, ok := find(c, pfx+"/"+pathStr(cur.names[k])); ok {
				return s, true
			}
		}
		return "", false
	}
	s, _ := find(i.ps.fs.root, "")
	return s
}

func (n *mnode) addChild(name value, c *mnode) {
	n.names = append(n.names, name)
	n.kids = append(n.kids, c)
}

func (n *mnode) removeChild(idx int) {
	n.names = append(n.names[:idx:idx], n.names[idx+1:]...)
	n.kids = append(n.kids[:idx:idx], n.kids[idx+1:]...)
}

// ---------------------------------------------------------------- os.File

func (i *interpreter) newFile(n *mnode, name value, flags int) *value {
	T := i.namedType("os", "File")
	var v value = zero(T)
	p := &v
	i.ps.fs.files[p] = &mfile{node: n, name: name, flags: flags, appendM: flags&0x400 != 0}
	return p
}

func (i *interpreter) fileOf(fr *frame, v value) *mfile {
	p, _ := v.(*value)
	if p == nil {
		return nil
	}
	return i.ps.fs.files[p]
}

const (
	oWRONLY = 0x1
	oRDWR   = 0x2
	oCREATE = 0x40
	oEXCL   = 0x80
	oTRUNC  = 0x200
	oAPPEND = 0x400
)

func errTuple(vals ...value) value { return tuple(vals) }

func (i *interpreter) openFile(fr *frame, path value, flags int, perm uint32) value {
	nilFile := (*value)(nil)
	if flags&(oCREATE|oTRUNC) != 0 {
		i.fsYield(fr)
	}
	if i.fsFault("open") {
		return tuple{nilFile, i.pathError("open", path, eIO)}
	}
	r := i.resolve(fr, path, true)
	if r.errno != 0 {
		return tuple{nilFile, i.pathError("open", path, r.errno)}
	}
	if r.node == nil {
		if flags&oCREATE == 0 {
			return tuple{nilFile, i.pathError("open", path, eNOENT)}
		}
		i.fsMutate(fr, "create", path)
		n := i.ps.fs.newNode(nkFile, perm&0777)
		n.mtime = nil
		r.parent.addChild(r.name, n)
		return tuple{i.newFile(n, path, flags), iface{}}
	}
	if flags&oCREATE != 0 && flags&oEXCL != 0 {
		return tuple{nilFile, i.pathError("open", path, eEXIST)}
	}
	if r.node.kind == nkDir && flags&(oWRONLY|oRDWR) != 0 {
		return tuple{nilFile, i.pathError("open", path, eISDIR)}
	}
	if flags&oTRUNC != 0 && r.node.kind == nkFile && len(r.node.data) > 0 {
		i.fsMutate(fr, "truncate", path)
		r.node.data = nil
	}
	return tuple{i.newFile(r.node, path, flags), iface{}}
}

func (i *interpreter) badFile(op string) iface { return i.pathError(op, "<closed>", eBADF) }

func ioEOF(i *interpreter) iface {
	g := i.prog.ImportedPackage("io").Var("EOF")
	return (*i.globals[g]).(iface)
}

func (i *interpreter) fileRead(fr *frame, f *mfile, p []value, off int64, useOff bool, op string) value {
	if f == nil || f.closed {
		return tuple{0, i.badFile(op)}
	}
	if f.node.kind == nkDir {
		return tuple{0, i.pathError(op, f.name, eISDIR)}
	}
	if i.fsFault("read") {
		return tuple{0, i.pathError(op, f.name, eIO)}
	}
	if len(i.ps.sched.gs) > 1 && !i.ps.fsNoYield {
		i.ps.sched.yield(fr)
	}
	pos := f.off
	if useOff {
		pos = off
		if off < 0 {
			return tuple{0, i.pathError(op, f.name, eINVAL)}
		}
	}
	if len(p) == 0 {
		return tuple{0, iface{}}
	}
	data := f.node.data
	if pos >= int64(len(data)) {
		return tuple{0, ioEOF(i)}
	}
	n := copy(p, data[pos:])
	if !useOff {
		f.off += int64(n)
		return tuple{n, iface{}}
	}
	if n < len(p) {
		return tuple{n, ioEOF(i)} // ReadAt: short read comes with io.EOF
	}
	return tuple{n, iface{}}
}

func (i *interpreter) fileWrite(fr *frame, f *mfile, p []value, off int64, useOff bool, op string) value {
	if f == nil || f.closed {
		return tuple{0, i.badFile(op)}
	}
	if f.flags&(oWRONLY|oRDWR) == 0 && !f.console {
		return tuple{0, i.pathError(op, f.name, eBADF)}
	}
	fs := i.ps.fs
	shortN, isShort := fs.shortFaults[fs.calls["write"]]
	if i.fsFault("write") {
		return tuple{0, i.pathError(op, f.name, eIO)}
	}
	pos := f.off
	if useOff {
		pos = off
	} else if f.appendM {
		pos = int64(len(f.node.data))
	}
	if pos < 0 {
		return tuple{0, i.pathError(op, f.name, eINVAL)}
	}
	// a crash can cut this write short
	if fs.crashAt >= 0 && len(fs.muts) == fs.crashAt && fs.shortWrite >= 0 && len(p) > 0 {
		k := fs.shortWrite
		if k > len(p) {
			k = len(p)
		}
		i.writeData(f.node, p[:k], pos)
		i.ps.crashed = true
		panic(crashPanic{})
	}
	i.fsMutate(fr, "write", f.name)
	if isShort && shortN < len(p) {
		// the device accepts a prefix and then runs out of space
		i.writeData(f.node, p[:shortN], pos)
		if !useOff {
			f.off = pos + int64(shortN)
		}
		return tuple{shortN, i.pathError(op, f.name, eNOSPC)}
	}
	i.writeData(f.node, p, pos)
	if !useOff {
		f.off = pos + int64(len(p))
	}
	return tuple{len(p), iface{}}
}

func (i *interpreter) writeData(n *mnode, p []value, pos int64) {
	end := pos + int64(len(p))
	if end > maxModelAlloc {
		i.abort(outBound, "model file would grow to %d bytes", end)
	}
	for int64(len(n.data)) < end {
		n.data = append(n.data, byte(0))
	}
	copy(n.data[pos:end], p)
}

func (i *interpreter) truncateNode(n *mnode, size int64) {
	if size > maxModelAlloc {
		i.abort(outBound, "model file truncated to %d bytes", size)
	}
	if size < int64(len(n.data)) {
		n.data = n.data[:size:size]
		return
	}
	for int64(len(n.data)) < size {
		n.data = append(n.data, byte(0))
	}
}

// ---------------------------------------------------------------- intrinsics

func (i *interpreter) strArg(v value) value { return v }

func init() {
	R := func(name string, f intrinsic) {
		if fsMutatingOps[name] {
			g := f
			f = func(i *interpreter, fr *frame, fn *ssa.Function, a []value) value {
				i.fsYield(fr)
				return g(i, fr, fn, a)
			}
		}
		reg(name, f)
	}
	R("os.Open", func(i *interpreter, fr *frame, fn *ssa.Function, a []value) value { return i.openFile(fr, a[0], 0, 0) })
	R("os.Create", func(i *interpreter, fr *frame, fn *ssa.Function, a []value) value {
		return i.openFile(fr, a[0], oRDWR|oCREATE|oTRUNC, 0666)
	})
	R("os.OpenFile", func(i *interpreter, fr *frame, fn *ssa.Function, a []value) value {
		return i.openFile(fr, a[0], a[1].(int), a[2].(uint32))
	})
	R("os.NewFile", func(i *interpreter, fr *frame, fn *ssa.Function, a []value) value {
		n := i.ps.fs.newNode(nkFile, 0600)
		p := i.newFile(n, a[1], oRDWR)
		i.ps.fs.files[p].console = true
		return p
	})
	stat := func(follow bool, op string) intrinsic {
		return func(i *interpreter, fr *frame, fn *ssa.Function, a []value) value {
			if i.fsFault("stat") {
				return tuple{iface{}, i.pathError(op, a[0], eIO)}
			}
			r := i.resolve(fr, a[0], follow)
			if r.errno != 0 {
				return tuple{iface{}, i.pathError(op, a[0], r.errno)}
			}
			if r.node == nil {
				return tuple{iface{}, i.pathError(op, a[0], eNOENT)}
			}
			return tuple{i.fileInfo(baseName(a[0], r.name), r.node), iface{}}
		}
	}
	// syscall.Stat / syscall.Lstat fill a Stat_t (type and permission bits, owner, rdev, size, inode)
	sysStat := func(follow bool) intrinsic {
		return func(i *interpreter, fr *frame, fn *ssa.Function, a []value) value {
			if i.fsFault("stat") {
				return i.errno(eIO)
			}
			r := i.resolve(fr, a[0], follow)
			if r.errno != 0 {
				return i.errno(r.errno)
			}
			if r.node == nil {
				return i.errno(eNOENT)
			}
			fi := i.fileInfo(baseName(a[0], r.name), r.node)
			T := i.namedType("os", "fileStat")
			fs := (*fi.v.(*value)).(structure)
			sys := fs[fieldIndex(T, "sys")].(structure)
			*a[1].(*value) = append(structure(nil), sys...)
			return iface{}
		}
	}
	R("syscall.Stat", sysStat(true))
	R("syscall.Lstat", sysStat(false))
	R("os.Stat", stat(true, "stat"))
	R("os.Lstat", stat(false, "lstat"))
	R("(*os.File).Stat", func(i *interpreter, fr *frame, fn *ssa.Function, a []value) value {
		f := i.fileOf(fr, a[0])
		if f == nil || f.closed {
			return tuple{iface{}, i.badFile("stat")}
		}
		return tuple{i.fileInfo(f.name, f.node), iface{}}
	})
	R("(*os.File).Name", func(i *interpreter, fr *frame, fn *ssa.Function, a []value) value {
		if f := i.fileOf(fr, a[0]); f != nil {
			return f.name
		}
		return ""
	})
	R("(*os.File).Fd", func(i *interpreter, fr *frame, fn *ssa.Function, a []value) value {
		if f := i.fileOf(fr, a[0]); f != nil {
			return uintptr(f.node.ino + 2)
		}
		return ^uintptr(0)
	})
	R("(*os.File).Close", func(i *interpreter, fr *frame, fn *ssa.Function, a []value) value {
		f := i.fileOf(fr, a[0])
		if f == nil {
			return iface{t: i.namedType("syscall", "Errno"), v: uintptr(eINVAL)}
		}
		if f.closed {
			return i.pathError("close", f.name, eBADF)
		}
		f.closed = true
		return iface{}
	})
	R("(*os.File).Sync", func(i *interpreter, fr *frame, fn *ssa.Function, a []value) value { return iface{} })
	R("(*os.File).Read", func(i *interpreter, fr *frame, fn *ssa.Function, a []value) value {
		return i.fileRead(fr, i.fileOf(fr, a[0]), a[1].([]value), 0, false, "read")
	})
	R("(*os.File).ReadAt", func(i *interpreter, fr *frame, fn *ssa.Function, a []value) value {
		off := i.concInt(fr, a[2], true, "ReadAt offset")
		return i.fileRead(fr, i.fileOf(fr, a[0]), a[1].([]value), off, true, "read")
	})
	R("(*os.File).Write", func(i *interpreter, fr *frame, fn *ssa.Function, a []value) value {
		return i.fileWrite(fr, i.fileOf(fr, a[0]), a[1].([]value), 0, false, "write")
	})
	R("(*os.File).WriteString", func(i *interpreter, fr *frame, fn *ssa.Function, a []value) value {
		return i.fileWrite(fr, i.fileOf(fr, a[0]), strBytes(a[1]), 0, false, "write")
	})
	R("(*os.File).WriteAt", func(i *interpreter, fr *frame, fn *ssa.Function, a []value) value {
		off := i.concInt(fr, a[2], true, "WriteAt offset")
		return i.fileWrite(fr, i.fileOf(fr, a[0]), a[1].([]value), off, true, "write")
	})
	R("(*os.File).readFrom", func(i *interpreter, fr *frame, fn *ssa.Function, a []value) value {
		return tuple{int64(0), false, iface{}}
	})
	R("(*os.File).writeTo", func(i *interpreter, fr *frame, fn *ssa.Function, a []value) value {
		return tuple{int64(0), false, iface{}}
	})
	R("(*os.File).Seek", func(i *interpreter, fr *frame, fn *ssa.Function, a []value) value {
		f := i.fileOf(fr, a[0])
		if f == nil || f.closed {
			return tuple{int64(0), i.badFile("seek")}
		}
		off := i.concInt(fr, a[1], true, "Seek offset")
		var base int64
		switch a[2].(int) {
		case 0:
		case 1:
			base = f.off
		case 2:
			base = int64(len(f.node.data))
		default:
			return tuple{int64(0), i.pathError("seek", f.name, eINVAL)}
		}
		if base+off < 0 {
			return tuple{int64(0), i.pathError("seek", f.name, eINVAL)}
		}
		f.off = base + off
		return tuple{f.off, iface{}}
	})
	R("(*os.File).Truncate", func(i *interpreter, fr *frame, fn *ssa.Function, a []value) value {
		f := i.fileOf(fr, a[0])
		if f == nil || f.closed {
			return i.badFile("truncate")
		}
		if i.fsFault("truncate") {
			return i.pathError("truncate", f.name, eIO)
		}
		size := i.concInt(fr, a[1], true, "Truncate size")
		if size < 0 {
			return i.pathError("truncate", f.name, eINVAL)
		}
		i.fsMutate(fr, "truncate", f.name)
		i.truncateNode(f.node, size)
		return iface{}
	})
	R("os.Truncate", func(i *interpreter, fr *frame, fn *ssa.Function, a []value) value {
		r := i.resolve(fr, a[0], true)
		if r.errno != 0 || r.node == nil {
			return i.pathError("truncate", a[0], pick(r.errno, eNOENT))
		}
		size := i.concInt(fr, a[1], true, "Truncate size")
		if size < 0 {
			return i.pathError("truncate", a[0], eINVAL)
		}
		i.fsMutate(fr, "truncate", a[0])
		i.truncateNode(r.node, size)
		return iface{}
	})
	R("(*os.File).Readdirnames", func(i *interpreter, fr *frame, fn *ssa.Function, a []value) value {
		f := i.fileOf(fr, a[0])
		if f == nil || f.closed {
			return tuple{[]value(nil), i.badFile("readdirent")}
		}
		if f.node.kind != nkDir {
			return tuple{[]value(nil), i.pathError("readdirent", f.name, eNOTDIR)}
		}
		if i.fsFault("readdir") {
			return tuple{[]value(nil), i.pathError("readdirent", f.name, eIO)}
		}
		var out []value
		for k := f.dirpos; k < len(f.node.names); k++ {
			out = append(out, f.node.names[k])
		}
		f.dirpos = len(f.node.names)
		return tuple{out, iface{}}
	})
	R("(*os.File).Readdir", func(i *interpreter, fr *frame, fn *ssa.Function, a []value) value {
		f := i.fileOf(fr, a[0])
		if f == nil || f.closed || f.node.kind != nkDir {
			return tuple{[]value(nil), i.badFile("readdirent")}
		}
		var out []value
		for k := f.dirpos; k < len(f.node.names); k++ {
			out = append(out, i.fileInfo(f.node.names[k], f.node.kids[k]))
		}
		f.dirpos = len(f.node.names)
		return tuple{out, iface{}}
	})
	R("(*os.File).Chmod", func(i *interpreter, fr *frame, fn *ssa.Function, a []value) value {
		f := i.fileOf(fr, a[0])
		if f == nil || f.closed {
			return i.badFile("chmod")
		}
		i.fsMutate(fr, "chmod", f.name)
		f.node.mode = (f.node.mode &^ (0777 | modeSetuid | modeSetgid | modeSticky)) | (a[1].(uint32) & (0777 | modeSetuid | modeSetgid | modeSticky))
		return iface{}
	})
	R("os.Remove", func(i *interpreter, fr *frame, fn *ssa.Function, a []value) value { return i.fsRemove(fr, a[0], "remove", false) })
	R("syscall.Unlink", func(i *interpreter, fr *frame, fn *ssa.Function, a []value) value {
		e := i.fsRemove(fr, a[0], "unlink", true)
		return i.unwrapErrno(e)
	})
	R("os.RemoveAll", func(i *interpreter, fr *frame, fn *ssa.Function, a []value) value {
		r := i.resolve(fr, a[0], false)
		if r.errno != 0 || r.node == nil {
			return iface{}
		}
		if r.idx < 0 {
			return i.pathError("unlinkat", a[0], eINVAL)
		}
		i.fsMutate(fr, "removeall", a[0])
		r.parent.removeChild(r.idx)
		return iface{}
	})
	R("os.Mkdir", func(i *interpreter, fr *frame, fn *ssa.Function, a []value) value {
		if i.fsFault("mkdir") {
			return i.pathError("mkdir", a[0], eIO)
		}
		r := i.resolve(fr, a[0], false)
		if r.errno != 0 {
			return i.pathError("mkdir", a[0], r.errno)
		}
		if r.node != nil {
			return i.pathError("mkdir", a[0], eEXIST)
		}
		i.fsMutate(fr, "mkdir", a[0])
		r.parent.addChild(r.name, i.ps.fs.newNode(nkDir, modeDir|(a[1].(uint32)&0777)))
		return iface{}
	})
	R("os.MkdirAll", func(i *interpreter, fr *frame, fn *ssa.Function, a []value) value {
		comps, _ := i.splitPath(fr, a[0])
		cur := i.ps.fs.root
		for _, c := range comps {
			if i.nameEq(fr, c, ".") {
				continue
			}
			ch, _ := cur.child(i, fr, c)
			if ch == nil {
				i.fsMutate(fr, "mkdir", a[0])
				ch = i.ps.fs.newNode(nkDir, modeDir|(a[1].(uint32)&0777))
				cur.addChild(c, ch)
			} else if ch.kind == nkSymlink {
				r := i.resolveFrom(fr, cur, ch.target, true, 1)
				if r.errno != 0 || r.node == nil {
					return i.pathError("mkdir", a[0], pick(r.errno, eNOENT))
				}
				ch = r.node
			}
			if ch.kind != nkDir {
				return i.pathError("mkdir", a[0], eNOTDIR)
			}
			cur = ch
		}
		return iface{}
	})
	R("os.Rename", func(i *interpreter, fr *frame, fn *ssa.Function, a []value) value {
		if i.fsFault("rename") {
			return i.linkError("rename", a[0], a[1], eIO)
		}
		src := i.resolve(fr, a[0], false)
		if src.errno != 0 || src.node == nil || src.idx < 0 {
			return i.linkError("rename", a[0], a[1], pick(src.errno, eNOENT))
		}
		dst := i.resolve(fr, a[1], false)
		if dst.errno != 0 {
			return i.linkError("rename", a[0], a[1], dst.errno)
		}
		if dst.node != nil {
			if dst.node == src.node {
				return iface{}
			}
			if dst.node.kind == nkDir && (src.node.kind != nkDir || len(dst.node.kids) > 0) {
				return i.linkError("rename", a[0], a[1], pick(0, eNOTEMPTY))
			}
			if dst.node.kind != nkDir && src.node.kind == nkDir {
				return i.linkError("rename", a[0], a[1], eNOTDIR)
			}
		}
		i.fsMutate(fr, "rename", a[1])
		// atomic: unlink source entry, replace/insert destination entry
		src.parent.removeChild(src.idx)
		if dst.node != nil {
			_, idx := dst.parent.child(i, fr, dst.name)
			if idx >= 0 {
				dst.parent.kids[idx] = src.node
				return iface{}
			}
		}
		dst.parent.addChild(dst.name, src.node)
		return iface{}
	})
	R("os.Symlink", func(i *interpreter, fr *frame, fn *ssa.Function, a []value) value {
		r := i.resolve(fr, a[1], false)
		if r.errno != 0 {
			return i.linkError("symlink", a[0], a[1], r.errno)
		}
		if r.node != nil {
			return i.linkError("symlink", a[0], a[1], eEXIST)
		}
		i.fsMutate(fr, "symlink", a[1])
		n := i.ps.fs.newNode(nkSymlink, modeSymlink|0777)
		n.target = a[0]
		r.parent.addChild(r.name, n)
		return iface{}
	})
	R("os.Readlink", func(i *interpreter, fr *frame, fn *ssa.Function, a []value) value {
		r := i.resolve(fr, a[0], false)
		if r.errno != 0 || r.node == nil {
			return tuple{"", i.pathError("readlink", a[0], pick(r.errno, eNOENT))}
		}
		if r.node.kind != nkSymlink {
			return tuple{"", i.pathError("readlink", a[0], eINVAL)}
		}
		return tuple{r.node.target, iface{}}
	})
	chown := func(follow bool, op string) intrinsic {
		return func(i *interpreter, fr *frame, fn *ssa.Function, a []value) value {
			if i.fsFault("chown") {
				return i.pathError(op, a[0], ePERM)
			}
			r := i.resolve(fr, a[0], follow)
			if r.errno != 0 || r.node == nil {
				return i.pathError(op, a[0], pick(r.errno, eNOENT))
			}
			i.fsMutate(fr, op, a[0])
			r.node.uid, r.node.gid = a[1], a[2]
			// chown(2) clears the set-uid bit of a non-directory, and its set-gid bit when the
			// file is group-executable (Linux does so for every caller, also when nothing changes)
			if r.node.kind == nkFile {
				r.node.mode &^= modeSetuid
				if r.node.mode&0010 != 0 {
					r.node.mode &^= modeSetgid
				}
			}
			return iface{}
		}
	}
	R("os.Chown", chown(true, "chown"))
	R("os.Lchown", chown(false, "lchown"))
	R("os.Chtimes", func(i *interpreter, fr *frame, fn *ssa.Function, a []value) value {
		r := i.resolve(fr, a[0], true)
		if r.errno != 0 || r.node == nil {
			return i.pathError("chtimes", a[0], pick(r.errno, eNOENT))
		}
		i.fsMutate(fr, "chtimes", a[0])
		// utimensat takes the instant as (sec, nsec) computed from UnixNano(): what reaches the
		// kernel is the 64-bit nanosecond count, not the Time value
		r.node.mtime = a[2]
		if st, ok := i.isAbsTime(a[2]); ok {
			lo := i.term(st[1])
			r.node.mtime = structure{lower(i.ps.ctx.Bin(smt.OpBvAshr, lo, i.ps.ctx.Const(63, 64)), types.Uint64), st[1], i.absLoc()}
		}
		return iface{}
	})
	R("os.Chmod", func(i *interpreter, fr *frame, fn *ssa.Function, a []value) value {
		r := i.resolve(fr, a[0], true)
		if r.errno != 0 || r.node == nil {
			return i.pathError("chmod", a[0], pick(r.errno, eNOENT))
		}
		i.fsMutate(fr, "chmod", a[0])
		keep := r.node.mode &^ (0777 | modeSetuid | modeSetgid | modeSticky)
		r.node.mode = keep | (a[1].(uint32) & (0777 | modeSetuid | modeSetgid | modeSticky))
		return iface{}
	})
	R("syscall.Chmod", func(i *interpreter, fr *frame, fn *ssa.Function, a []value) value {
		r := i.resolve(fr, a[0], true)
		if r.errno != 0 || r.node == nil {
			return i.errno(pick(r.errno, eNOENT))
		}
		i.fsMutate(fr, "chmod", a[0])
		m, ok := a[1].(uint32)
		if !ok {
			i.abort(outUnsupported, "chmod with a symbolic mode")
		}
		keep := r.node.mode &^ (0777 | modeSetuid | modeSetgid | modeSticky)
		nm := m & 0777
		if m&04000 != 0 {
			nm |= modeSetuid
		}
		if m&02000 != 0 {
			nm |= modeSetgid
		}
		if m&01000 != 0 {
			nm |= modeSticky
		}
		r.node.mode = keep | nm
		return iface{}
	})
	R("syscall.Mknod", func(i *interpreter, fr *frame, fn *ssa.Function, a []value) value {
		r := i.resolve(fr, a[0], false)
		if r.errno != 0 {
			return i.errno(r.errno)
		}
		if r.node != nil {
			return i.errno(eEXIST)
		}
		m, ok := a[1].(uint32)
		if !ok {
			i.abort(outUnsupported, "mknod with a symbolic mode")
		}
		i.fsMutate(fr, "mknod", a[0])
		mode := uint32(modeDevice) | m&0777
		switch m & 0170000 {
		case 0020000:
			mode |= modeCharDevice
		case 0010000:
			mode = modeNamedPipe | m&0777
		case 0140000:
			mode = modeSocket | m&0777
		}
		n := i.ps.fs.newNode(nkDevice, mode)
		switch d := a[2].(type) {
		case int:
			n.rdev = uint64(d)
		case sym:
			n.rdevSym = d
		}
		r.parent.addChild(r.name, n)
		return iface{}
	})
	R("os.TempDir", func(i *interpreter, fr *frame, fn *ssa.Function, a []value) value { return "/tmp" })
	R("os.Getwd", func(i *interpreter, fr *frame, fn *ssa.Function, a []value) value { return tuple{"/", iface{}} })
	R("os.CreateTemp", func(i *interpreter, fr *frame, fn *ssa.Function, a []value) value { return i.createTemp(fr, a[0], a[1]) })
	R("io/ioutil.TempFile", func(i *interpreter, fr *frame, fn *ssa.Function, a []value) value { return i.createTemp(fr, a[0], a[1]) })
	R("os.MkdirTemp", func(i *interpreter, fr *frame, fn *ssa.Function, a []value) value {
		fs := i.ps.fs
		fs.tmpSeq++
		dir := a[0]
		if strLen(dir) == 0 {
			dir = "/tmp"
		}
		name := mkstr(append(append(append([]value(nil), strBytes(dir)...), strBytes("/")...), strBytes(fmt.Sprintf("%sd%d", pathStr(a[1]), fs.tmpSeq))...))
		r := i.resolve(fr, name, false)
		if r.errno != 0 || r.parent == nil {
			return tuple{"", i.pathError("mkdir", name, pick(r.errno, eNOENT))}
		}
		r.parent.addChild(r.name, fs.newNode(nkDir, modeDir|0700))
		return tuple{name, iface{}}
	})
	R("github.com/folbricht/tempfile.nextRand", func(i *interpreter, fr *frame, fn *ssa.Function, a []value) value {
		i.ps.fs.tmpSeq++
		return fmt.Sprintf(".%d", 1000+i.ps.fs.tmpSeq)
	})
	// extended attributes
	// extended attributes: the L* functions act on a symlink itself, the others follow it.
	// Linux refuses user.* attributes on symlinks (EPERM).
	xset := func(follow bool, op string) intrinsic {
		return func(i *interpreter, fr *frame, fn *ssa.Function, a []value) value {
			r := i.resolve(fr, a[0], follow)
			if r.errno != 0 || r.node == nil {
				return i.pathError(op, a[0], pick(r.errno, eNOENT))
			}
			if i.fsFault("xattr") {
				return i.pathError(op, a[0], eOPNOTSUPP)
			}
			if r.node.kind == nkSymlink && strings.HasPrefix(pathStr(a[1]), "user.") {
				return i.pathError(op, a[0], ePERM)
			}
			i.fsMutate(fr, "setxattr", a[0])
			val := append([]value(nil), a[2].([]value)...)
			for k := range r.node.xattrs {
				if i.nameEq(fr, r.node.xattrs[k][0], a[1]) {
					r.node.xattrs[k][1] = val
					return iface{}
				}
			}
			r.node.xattrs = append(r.node.xattrs, [2]value{a[1], val})
			return iface{}
		}
	}
	xlist := func(follow bool, op string) intrinsic {
		return func(i *interpreter, fr *frame, fn *ssa.Function, a []value) value {
			r := i.resolve(fr, a[0], follow)
			if r.errno != 0 || r.node == nil {
				return tuple{[]value(nil), i.pathError(op, a[0], pick(r.errno, eNOENT))}
			}
			var out []value
			for _, kv := range r.node.xattrs {
				out = append(out, kv[0])
			}
			return tuple{out, iface{}}
		}
	}
	xget := func(follow bool, op string) intrinsic {
		return func(i *interpreter, fr *frame, fn *ssa.Function, a []value) value {
			r := i.resolve(fr, a[0], follow)
			if r.errno != 0 || r.node == nil {
				return tuple{[]value(nil), i.pathError(op, a[0], pick(r.errno, eNOENT))}
			}
			for _, kv := range r.node.xattrs {
				if i.nameEq(fr, kv[0], a[1]) {
					return tuple{append([]value(nil), kv[1].([]value)...), iface{}}
				}
			}
			return tuple{[]value(nil), i.pathError(op, a[0], eNODATA)}
		}
	}
	R("github.com/pkg/xattr.LSet", xset(false, "xattr.lset"))
	R("github.com/pkg/xattr.Set", xset(true, "xattr.set"))
	R("github.com/pkg/xattr.LList", xlist(false, "xattr.llist"))
	R("github.com/pkg/xattr.List", xlist(true, "xattr.list"))
	R("github.com/pkg/xattr.LGet", xget(false, "xattr.lget"))
	R("github.com/pkg/xattr.Get", xget(true, "xattr.get"))

	// harness control of the model
	for _, pfx := range []string{desyncPath + ".", desyncPath + "/cmd/desync."} {
		p := pfx
		R(p+"vTempDir", func(i *interpreter, fr *frame, fn *ssa.Function, a []value) value {
			fs := i.ps.fs
			fs.tmpSeq++
			name := fmt.Sprintf("vroot%d", fs.tmpSeq)
			fs.root.addChild(name, fs.newNode(nkDir, modeDir|0755))
			return "/" + name
		})
		R(p+"vFSFault", func(i *interpreter, fr *frame, fn *ssa.Function, a []value) value {
			fs := i.ps.fs
			op := argStr(a[0])
			if fs.faults[op] == nil {
				fs.faults[op] = map[int]bool{}
			}
			fs.faults[op][a[1].(int)] = true
			return nil
		})
		// vFSShortWrite(nth, k): the nth write accepts k bytes and then fails with ENOSPC.
		R(p+"vFSShortWrite", func(i *interpreter, fr *frame, fn *ssa.Function, a []value) value {
			fs := i.ps.fs
			if fs.shortFaults == nil {
				fs.shortFaults = map[int]int{}
			}
			fs.shortFaults[a[0].(int)] = a[1].(int)
			return nil
		})
		R(p+"vFSCalls", func(i *interpreter, fr *frame, fn *ssa.Function, a []value) value { return i.ps.fs.calls[argStr(a[0])] })
		R(p+"vFSMutations", func(i *interpreter, fr *frame, fn *ssa.Function, a []value) value { return len(i.ps.fs.muts) })
		// vCrashAt(k, short, after): the world stops before the k-th file-system mutation from now
		// (a write is cut after `short` bytes if short >= 0); `after` then runs as the post-mortem.
		R(p+"vCrashAt", func(i *interpreter, fr *frame, fn *ssa.Function, a []value) value {
			fs := i.ps.fs
			fs.crashAt = len(fs.muts) + a[0].(int)
			fs.shortWrite = a[1].(int)
			i.ps.onCrash = a[2]
			return nil
		})
		R(p+"vCrashed", func(i *interpreter, fr *frame, fn *ssa.Function, a []value) value { return i.ps.crashed })
		R(p+"vSetCanClone", func(i *interpreter, fr *frame, fn *ssa.Function, a []value) value {
			i.ps.fs.canClone = a[0].(bool)
			i.ps.fs.cloneEmu = true
			return nil
		})
		R(p+"vFSList", func(i *interpreter, fr *frame, fn *ssa.Function, a []value) value {
			// all paths below dir (depth first, sorted by insertion), for frame conditions;
			// like filepath.Walk the root is lstat-ed: a symlink there is not followed
			r := i.resolve(fr, a[0], false)
			var out []value
			if r.errno != 0 || r.node == nil {
				return out
			}
			var rec func(n *mnode, pfx []value)
			rec = func(n *mnode, pfx []value) {
				for k, c := range n.kids {
					p := append(append(append([]value(nil), pfx...), byte('/')), strBytes(n.names[k])...)
					out = append(out, mkstr(p))
					if c.kind == nkDir {
						rec(c, p)
					}
				}
			}
			rec(r.node, strBytes(a[0]))
			return out
		})
	}
}

func pick(a, b int) int {
	if a != 0 {
		return a
	}
	return b
}

func baseName(path, last value) value {
	if last != nil {
		return last
	}
	return path
}

func (i *interpreter) unwrapErrno(e value) value {
	ei := e.(iface)
	if ei.t == nil {
		return iface{}
	}
	// *PathError -> its Errno
	st := (*ei.v.(*value)).(structure)
	return st[2]
}

func (i *interpreter) fsRemove(fr *frame, path value, op string, fileOnly bool) value {
	if i.fsFault("remove") {
		return i.pathError(op, path, eIO)
	}
	r := i.resolve(fr, path, false)
	if r.errno != 0 {
		return i.pathError(op, path, r.errno)
	}
	if r.node == nil {
		return i.pathError(op, path, eNOENT)
	}
	if r.idx < 0 {
		return i.pathError(op, path, eINVAL)
	}
	if r.node.kind == nkDir {
		if fileOnly {
			return i.pathError(op, path, eISDIR)
		}
		if len(r.node.kids) > 0 {
			return i.pathError(op, path, eNOTEMPTY)
		}
	}
	i.fsMutate(fr, op, path)
	r.parent.removeChild(r.idx)
	return iface{}
}

func (i *interpreter) createTemp(fr *frame, dir, pattern value) value {
	fs := i.ps.fs
	fs.tmpSeq++
	if strLen(dir) == 0 {
		dir = "/tmp"
	}
	pat := pathStr(pattern)
	suffix := ""
	if k := strings.LastIndex(pat, "*"); k >= 0 {
		pat, suffix = pat[:k], pat[k+1:]
	}
	name := mkstr(append(append(append([]value(nil), strBytes(dir)...), byte('/')), strBytes(fmt.Sprintf("%s%d%s", pat, 5000+fs.tmpSeq, suffix))...))
	return i.openFile(fr, name, oRDWR|oCREATE|oEXCL, 0600)
}

// fsDump renders the model tree (debugging / evidence samples).
func (i *interpreter) fsDump() string {
	var sb strings.Builder
	var rec func(n *mnode, pfx string)
	rec = func(n *mnode, pfx string) {
		type ent struct {
			name string
			n    *mnode
		}
		var es []ent
		for k, c := range n.kids {
			es = append(es, ent{pathStr(n.names[k]), c})
		}
		sort.Slice(es, func(a, b int) bool { return es[a].name < es[b].name })
		for _, e := range es {
			fmt.Fprintf(&sb, "%s/%s kind=%d len=%d\n", pfx, e.name, e.n.kind, len(e.n.data))
			if e.n.kind == nkDir {
				rec(e.n, pfx+"/"+e.name)
			}
		}
	}
	rec(i.ps.fs.root, "")
	return sb.String()
}

var _ = token.NoPos

// ---------------------------------------------------------------- FICLONERANGE emulation

// cloneRange emulates ioctl(FICLONERANGE) as read from fs/remap_range.c
// (generic_remap_checks / generic_remap_check_len with remap_flags == 0):
//   - the file system must support cloning (harness choice, vSetCanClone)
//   - length 0 means "up to the source's EOF"
//   - source range must lie inside the source file
//   - both offsets must be block aligned
//   - an unaligned length is accepted only if the range ends at the source's EOF
//     and the destination range ends at or beyond the destination's EOF
//   - ranges within one file must not overlap
//   - the destination is extended if the range ends beyond its EOF
func (i *interpreter) cloneRange(fr *frame, dst, src *mfile, srcOff, length, dstOff int64) int {
	i.fsYield(fr)
	fs := i.ps.fs
	if dst == nil || src == nil || dst.closed || src.closed {
		return eBADF
	}
	if !fs.canClone {
		return eOPNOTSUPP
	}
	if src.node.kind != nkFile || dst.node.kind != nkFile {
		return eINVAL
	}
	bs := dst.node.blksize
	sizeIn, sizeOut := int64(len(src.node.data)), int64(len(dst.node.data))
	if srcOff < 0 || dstOff < 0 || length < 0 {
		return eINVAL
	}
	if length == 0 {
		if srcOff > sizeIn {
			return eINVAL
		}
		length = sizeIn - srcOff
		if length == 0 {
			return 0
		}
	}
	if srcOff+length > sizeIn {
		return eINVAL
	}
	if srcOff%bs != 0 || dstOff%bs != 0 {
		return eINVAL
	}
	if length%bs != 0 {
		if srcOff+length != sizeIn || dstOff+length < sizeOut {
			return eINVAL
		}
	}
	if src.node == dst.node && srcOff < dstOff+length && dstOff < srcOff+length {
		return eINVAL
	}
	i.fsMutate(fr, "clonerange", dst.name)
	tmp := append([]value(nil), src.node.data[srcOff:srcOff+length]...)
	i.writeData(dst.node, tmp, dstOff)
	return 0
}

func init() {
	reg(desyncPath+".CloneRange", func(i *interpreter, fr *frame, fn *ssa.Function, a []value) value {
		dst, src := i.fileOf(fr, a[0]), i.fileOf(fr, a[1])
		so := i.concInt(fr, a[2], false, "CloneRange srcOffset")
		ln := i.concInt(fr, a[3], false, "CloneRange srcLength")
		do := i.concInt(fr, a[4], false, "CloneRange dstOffset")
		i.ps.fs.cloneLog = append(i.ps.fs.cloneLog, cloneOp{so, ln, do})
		if e := i.cloneRange(fr, dst, src, so, ln, do); e != 0 {
			return i.errno(e)
		}
		return iface{}
	})
	reg(desyncPath+".ioctl", func(i *interpreter, fr *frame, fn *ssa.Function, a []value) value {
		return i.errno(eOPNOTSUPP)
	})
	for _, pfx := range []string{desyncPath + ".", desyncPath + "/cmd/desync."} {
		reg(pfx+"vSetBlockSize", func(i *interpreter, fr *frame, fn *ssa.Function, a []value) value {
			i.ps.fs.blk = int64(a[0].(int))
			return nil
		})
		reg(pfx+"vFSYield", func(i *interpreter, fr *frame, fn *ssa.Function, a []value) value {
			i.ps.fsNoYield = !a[0].(bool)
			return nil
		})
		reg(pfx+"vClones", func(i *interpreter, fr *frame, fn *ssa.Function, a []value) value { return len(i.ps.fs.cloneLog) })
	}
}

// ---------------------------------------------------------------- recording mode for the clone-arithmetic kernels
//
// With vRecordIO(true) the copy helpers of the seed segments and CloneRange do not touch
// the file system: they append (kind, srcOffset, length, dstOffset) to a log with the
// operands left symbolic, so that the 64-bit arithmetic of the callers can be checked.

func (i *interpreter) recordIO(kind uint64, src, length, dst value) {
	i.ps.ioLog = append(i.ps.ioLog, kind, src, length, dst)
}

func init() {
	reg("(*"+desyncPath+".fileSeedSegment).copy", func(i *interpreter, fr *frame, fn *ssa.Function, a []value) value {
		if !i.ps.recordIOOn {
			return notHandled{}
		}
		// copy(dst, src *os.File, srcOffset, length, dstOffset)
		i.recordIO(uint64(0), a[3], a[4], a[5])
		return tuple{a[4], uint64(0), iface{}}
	})
	reg("(*"+desyncPath+".nullChunkSection).copy", func(i *interpreter, fr *frame, fn *ssa.Function, a []value) value {
		if !i.ps.recordIOOn {
			return notHandled{}
		}
		// copy(dst *os.File, offset, length)
		i.recordIO(uint64(0), a[2], a[3], a[2])
		return tuple{a[3], uint64(0), iface{}}
	})
	prev := intrinsics[desyncPath+".CloneRange"]
	reg(desyncPath+".CloneRange", func(i *interpreter, fr *frame, fn *ssa.Function, a []value) value {
		if !i.ps.recordIOOn {
			return prev(i, fr, fn, a)
		}
		i.recordIO(uint64(1), a[2], a[3], a[4])
		return iface{}
	})
	for _, pfx := range []string{desyncPath + ".", desyncPath + "/cmd/desync."} {
		reg(pfx+"vRecordIO", func(i *interpreter, fr *frame, fn *ssa.Function, a []value) value {
			i.ps.recordIOOn = a[0].(bool)
			return nil
		})
		reg(pfx+"vIOLog", func(i *interpreter, fr *frame, fn *ssa.Function, a []value) value {
			return append([]value(nil), i.ps.ioLog...)
		})
	}
}
