package symx

import "math"

func mathLog2(x float64) float64  { return math.Log2(x) }
func mathFloor(x float64) float64 { return math.Floor(x) }
func mathCeil(x float64) float64  { return math.Ceil(x) }
func mathPow(x, y float64) float64 { return math.Pow(x, y) }
