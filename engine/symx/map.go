package symx

// Insertion-ordered map used for every Go map of the target program, so that
// re-execution of a decision vector is deterministic.  Keys that contain
// symbolic parts are compared with solver-decided equality (linear scan).

import (
	"go/types"
)

type entry struct {
	key   value
	value value
	dead  bool
}

type hashmap struct {
	keyType types.Type
	ents    []*entry
	live    int
	fast    map[value]*entry // concrete keys of builtin-comparable kind
	hashed  map[int][]*entry // concrete aggregate keys by hash
	nsym    int              // live entries whose key has symbolic parts
}

func makeMap(kt types.Type, reserve int64) value {
	return &hashmap{keyType: kt, fast: map[value]*entry{}, hashed: map[int][]*entry{}}
}

func fastKey(k value) bool {
	switch k.(type) {
	case bool, int, int8, int16, int32, int64, uint, uint8, uint16, uint32, uint64, uintptr, float32, float64, string, *value, *channel:
		return true
	}
	return false
}

// find returns the entry for k, or nil.
func (m *hashmap) find(i *interpreter, fr *frame, k value) *entry {
	if m == nil {
		return nil
	}
	if fastKey(k) {
		if e := m.fast[k]; e != nil {
			return e
		}
		if !m.anySymKey() {
			return nil
		}
	} else if !hasSym(k) {
		h := hash(m.keyType, m.keyType, k)
		for _, e := range m.hashed[h] {
			if !e.dead && equals(m.keyType, k, e.key) {
				return e
			}
		}
		if !m.anySymKey() {
			return nil
		}
	}
	// symbolic comparison against every live entry
	for _, e := range m.ents {
		if e.dead {
			continue
		}
		if !hasSym(k) && !hasSym(e.key) {
			continue // concrete vs concrete handled above
		}
		t := i.symEq(m.keyType, k, e.key)
		if i.branch(fr, t, "map-key") {
			return e
		}
	}
	return nil
}

func (m *hashmap) anySymKey() bool { return m.nsym > 0 }

func (m *hashmap) lookup(i *interpreter, fr *frame, k value) (value, bool) {
	if e := m.find(i, fr, k); e != nil {
		return e.value, true
	}
	return nil, false
}

func (m *hashmap) insert(i *interpreter, fr *frame, k, v value) {
	if e := m.find(i, fr, k); e != nil {
		e.value = v
		return
	}
	e := &entry{key: k, value: v}
	m.ents = append(m.ents, e)
	m.live++
	if fastKey(k) {
		m.fast[k] = e
	} else if !hasSym(k) {
		h := hash(m.keyType, m.keyType, k)
		m.hashed[h] = append(m.hashed[h], e)
	} else {
		m.nsym++
	}
}

func (m *hashmap) delete(i *interpreter, fr *frame, k value) {
	e := m.find(i, fr, k)
	if e == nil {
		return
	}
	e.dead = true
	m.live--
	if fastKey(k) && m.fast[k] == e {
		delete(m.fast, k)
	} else if !hasSym(e.key) && !fastKey(e.key) {
		h := hash(m.keyType, m.keyType, e.key)
		l := m.hashed[h]
		for j := range l {
			if l[j] == e {
				m.hashed[h] = append(l[:j:j], l[j+1:]...)
				break
			}
		}
	} else if fastKey(e.key) {
		delete(m.fast, e.key)
	} else {
		m.nsym--
	}
	// compact
	if len(m.ents) > 16 && m.live*2 < len(m.ents) {
		var n []*entry
		for _, e := range m.ents {
			if !e.dead {
				n = append(n, e)
			}
		}
		m.ents = n
	}
}

func (m *hashmap) len() int {
	if m == nil {
		return 0
	}
	return m.live
}

// hashmapIter iterates in insertion order over a snapshot of the entries
// (entries deleted during iteration are skipped, as Go does).
type hashmapIter struct {
	ents []*entry
	pos  int
}

func (it *hashmapIter) next() tuple {
	for it.pos < len(it.ents) {
		e := it.ents[it.pos]
		it.pos++
		if !e.dead {
			return tuple{true, e.key, e.value}
		}
	}
	return tuple{false, nil, nil}
}
