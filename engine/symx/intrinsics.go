package symx

import (
	"math/big"
	"crypto/sha256"
	"crypto/sha512"
	"fmt"
	"go/token"
	"runtime"
	"go/types"
	"strings"

	"golang.org/x/tools/go/ssa"
	"verif/engine/smt"
)

type intrinsic func(i *interpreter, fr *frame, fn *ssa.Function, args []value) value

const (
	modeInterpret = iota
	modeIntrinsic
	modeOpaque
	modeUnsupported
	modeSkipInit
)

// notHandled is returned by an intrinsic that wants the real body interpreted.
type notHandled struct{}

type icEntry struct {
	mode int
	f    intrinsic
	name string
	api  bool
}

var intrinsics = map[string]intrinsic{}

func reg(name string, f intrinsic) { intrinsics[name] = f }

const desyncPath = "github.com/folbricht/desync"

// Packages whose functions are executed from their SSA.
var interpPkgs = map[string]bool{
	desyncPath: true, desyncPath + "/cmd/desync": true,
	"bytes": true, "bufio": true, "io": true, "errors": true, "encoding/binary": true, "encoding/hex": true,
	"sort": true, "strings": true, "path": true, "path/filepath": true, "math": true, "math/bits": true,
	"github.com/pkg/errors": true, "unicode": true, "unicode/utf8": true, "strconv": true,
	"internal/bytealg": true, "internal/itoa": true, "internal/stringslite": true, "slices": true, "cmp": true,
	"context": true, "golang.org/x/sync/errgroup": true, "sync": true, "sync/atomic": true,
	"github.com/boljen/go-bitmap": true, "github.com/dchest/siphash": true, "internal/filepathlite": true,
	"io/fs": true, "internal/oserror": true, "time": true, "io/ioutil": true, "os": true, "syscall": true,
	"internal/byteorder": true, "net/http": true, "net/url": true, "net/textproto": true, "maps": true, "iter": true,
	"container/list": true, "github.com/folbricht/tempfile": true, "github.com/spf13/pflag": true, "github.com/hanwen/go-fuse/v2/fuse": true, "vendor/golang.org/x/net/http/httpguts": true, "vendor/golang.org/x/net/idna": true, "net/http/internal/ascii": true, "net/http/internal": true, "mime": true, "net": true, "net/netip": true, "vendor/golang.org/x/net/http/httpproxy": true, "hash/crc32": false, "archive/tar": true, "internal/godebug": false,
}

// Packages whose init functions are run.
var initPkgs = map[string]bool{
	desyncPath: true, desyncPath + "/cmd/desync": true,
	"bytes": true, "bufio": true, "io": true, "encoding/binary": true, "encoding/hex": true, "sort": true,
	"strings": true, "path": true, "path/filepath": true, "math": true, "math/bits": true, "github.com/pkg/errors": true,
	"unicode/utf8": true, "strconv": true, "context": true, "golang.org/x/sync/errgroup": true, "sync": true, "sync/atomic": true,
	"github.com/boljen/go-bitmap": true, "github.com/dchest/siphash": true, "io/fs": true, "internal/oserror": true,
	"io/ioutil": true, "os": true, "syscall": true, "time": true, "net/http": false, "archive/tar": true,
	"vendor/golang.org/x/net/http/httpguts": true, "net/url": true, "net/textproto": true, "net/http/internal/ascii": true,
}

// Packages whose functions return a zero value without being executed
// (formatting, logging, progress display: not the subject of any property).
var opaquePkgs = map[string]bool{
	"github.com/sirupsen/logrus": true, "fmt": true, "log": true, "reflect": true, "internal/reflectlite": true,
	"runtime": true, "runtime/debug": true, "os/signal": true, "gopkg.in/cheggaaa/pb.v1": true,
	"golang.org/x/crypto/ssh/terminal": true, "github.com/klauspost/compress/zstd": true, "internal/godebug": true,
	"unicode": false, "internal/testlog": true, "internal/poll": true, "internal/syscall/unix": true, "internal/race": true,
	"os/exec": true, "math/rand": true, "internal/cpu": true, "golang.org/x/sys/unix": true, "internal/syscall/execenv": true,
	"internal/abi": true, "github.com/pkg/xattr": true, "internal/runtime/atomic": true,
}

func fnPkgPath(fn *ssa.Function) string {
	if fn.Pkg != nil {
		return fn.Pkg.Pkg.Path()
	}
	if o := fn.Origin(); o != nil && o.Pkg != nil {
		return o.Pkg.Pkg.Path()
	}
	if obj := fn.Object(); obj != nil && obj.Pkg() != nil {
		return obj.Pkg().Path()
	}
	return ""
}

func (e *Engine) classify(fn *ssa.Function) *icEntry {
	if v, ok := e.icache.Load(fn); ok {
		return v.(*icEntry)
	}
	name := fn.String()
	ent := &icEntry{name: name}
	f, ok := intrinsics[name]
	if !ok {
		if o := fn.Origin(); o != nil {
			f, ok = intrinsics[o.String()]
		}
	}
	path := fnPkgPath(fn)
	switch {
	case ok:
		ent.mode, ent.f = modeIntrinsic, f
		ent.api = strings.HasPrefix(name, desyncPath+".v") || strings.HasPrefix(name, desyncPath+"/cmd/desync.v")
	case fn.Name() == "init" && fn.Synthetic != "" && fn.Pkg != nil:
		if initPkgs[path] {
			ent.mode = modeInterpret
		} else {
			ent.mode = modeSkipInit
		}
	case path == "" || interpPkgs[path]:
		ent.mode = modeInterpret
		if fn.Blocks == nil {
			ent.mode = modeUnsupported
		}
	case opaquePkgs[path]:
		ent.mode = modeOpaque
	default:
		ent.mode = modeUnsupported
	}
	e.icache.Store(fn, ent)
	return ent
}

func zeroResults(fn *ssa.Function) value {
	res := fn.Signature.Results()
	switch res.Len() {
	case 0:
		return nil
	case 1:
		return zero(res.At(0).Type())
	}
	t := make(tuple, res.Len())
	for k := range t {
		t[k] = zero(res.At(k).Type())
	}
	return t
}

// callModel runs a host-side model.  A host run-time error raised by the model itself (not by
// target code it called back into) is an engine defect, never a panic of the program under test.
func (i *interpreter) callModel(ent *icEntry, fr *frame, fn *ssa.Function, args []value) value {
	ps := i.ps
	defer func() {
		if ps.panicActive {
			return
		}
		if r := recover(); r != nil {
			if re, ok := r.(runtime.Error); ok {
				if _, mine := re.(runtimeErr); !mine {
					buf := make([]byte, 2048)
					buf = buf[:runtime.Stack(buf, false)]
					panic(fmt.Sprintf("engine: host run-time error inside the model of %s: %v\n%s", ent.name, re, buf))
				}
			}
			panic(r)
		}
	}()
	return ent.f(i, fr, fn, args)
}

func (i *interpreter) intercept(fr *frame, fn *ssa.Function, args []value) (value, bool) {
	ent := i.eng.classify(fn)
	ps := i.ps
	switch ent.mode {
	case modeInterpret:
		return nil, false
	case modeIntrinsic:
		if !ent.api {
			ps.stubs[ent.name]++
		}
		if fr.caller != nil {
			fr.cur = fr.caller.cur
		}
		r := i.callModel(ent, fr, fn, args)
		if _, nh := r.(notHandled); nh {
			if fn.Blocks == nil {
				i.abort(outUnsupported, "no code for function %s", ent.name)
			}
			return nil, false
		}
		return r, true
	case modeOpaque:
		ps.stubs["opaque:"+ent.name]++
		return zeroResults(fn), true
	case modeSkipInit:
		return nil, true
	}
	if !ps.initDone {
		return zeroResults(fn), true
	}
	i.abort(outUnsupported, "call of %s (no model) at %s", ent.name, i.posOf(fr.caller))
	return nil, true
}

// ------------------------------------------------------------------ verif API

func smtName(s string) string {
	var sb strings.Builder
	for _, r := range s {
		if (r >= 'a' && r <= 'z') || (r >= 'A' && r <= 'Z') || (r >= '0' && r <= '9') || r == '_' {
			sb.WriteRune(r)
		} else {
			sb.WriteByte('_')
		}
	}
	return sb.String()
}

func (i *interpreter) fresh(name, kind string, w int) (value, *nondet) {
	ps := i.ps
	n := ps.names[name]
	ps.names[name] = n + 1
	full := name
	if n > 0 {
		full = fmt.Sprintf("%s#%d", name, n)
	}
	nd := &nondet{name: full, kind: kind}
	ps.nondets = append(ps.nondets, nd)
	if cv, ok := i.eng.Cfg.Concrete[full]; ok {
		var v uint64
		fmt.Sscanf(cv, "%x", &v)
		nd.conc = []uint64{v}
		return ps.ctx.Const(v, w), nd
	}
	t := ps.ctx.Var(fmt.Sprintf("v%d_%s", len(ps.nondets), smtName(full)), w)
	nd.t = []*smt.Term{t}
	return t, nd
}

func (i *interpreter) freshScalar(name string, k types.BasicKind) value {
	kind := strings.ToLower(types.Typ[k].Name())
	t, _ := i.fresh(name, kind, kindWidth(k))
	return lower(t.(*smt.Term), k)
}

func (i *interpreter) freshBytes(name string, n int) []value {
	ps := i.ps
	cnt := ps.names[name]
	ps.names[name] = cnt + 1
	full := name
	if cnt > 0 {
		full = fmt.Sprintf("%s#%d", name, cnt)
	}
	nd := &nondet{name: full, kind: fmt.Sprintf("bytes:%d", n)}
	ps.nondets = append(ps.nondets, nd)
	out := make([]value, n)
	if cv, ok := i.eng.Cfg.Concrete[full]; ok {
		for k := 0; k < n; k++ {
			var b uint64
			if 2*k+2 <= len(cv) {
				fmt.Sscanf(cv[2*k:2*k+2], "%x", &b)
			}
			out[k] = byte(b)
		}
		nd.conc = []uint64{0}
		return out
	}
	for k := 0; k < n; k++ {
		t := ps.ctx.Var(fmt.Sprintf("v%d_%s_%d", len(ps.nondets), smtName(full), k), 8)
		nd.t = append(nd.t, t)
		out[k] = sym{t}
	}
	if n == 0 {
		nd.conc = []uint64{0}
	}
	return out
}

func argStr(v value) string {
	if s, ok := v.(string); ok {
		return s
	}
	return "<symbolic>"
}

func boolTerm(i *interpreter, v value) *smt.Term { return i.term(v) }

func init() {
	for _, pfx := range []string{desyncPath + ".", desyncPath + "/cmd/desync."} {
		p := pfx
		reg(p+"vU8", func(i *interpreter, fr *frame, fn *ssa.Function, a []value) value { return i.freshScalar(argStr(a[0]), types.Uint8) })
		reg(p+"vU16", func(i *interpreter, fr *frame, fn *ssa.Function, a []value) value { return i.freshScalar(argStr(a[0]), types.Uint16) })
		reg(p+"vU32", func(i *interpreter, fr *frame, fn *ssa.Function, a []value) value { return i.freshScalar(argStr(a[0]), types.Uint32) })
		reg(p+"vU64", func(i *interpreter, fr *frame, fn *ssa.Function, a []value) value { return i.freshScalar(argStr(a[0]), types.Uint64) })
		reg(p+"vInt", func(i *interpreter, fr *frame, fn *ssa.Function, a []value) value { return i.freshScalar(argStr(a[0]), types.Int) })
		reg(p+"vI64", func(i *interpreter, fr *frame, fn *ssa.Function, a []value) value { return i.freshScalar(argStr(a[0]), types.Int64) })
		reg(p+"vBool", func(i *interpreter, fr *frame, fn *ssa.Function, a []value) value { return i.freshScalar(argStr(a[0]), types.Bool) })
		reg(p+"vBytes", func(i *interpreter, fr *frame, fn *ssa.Function, a []value) value {
			return i.freshBytes(argStr(a[0]), a[1].(int))
		})
		reg(p+"vStr", func(i *interpreter, fr *frame, fn *ssa.Function, a []value) value {
			return mkstr(i.freshBytes(argStr(a[0]), a[1].(int)))
		})
		reg(p+"vChoose", func(i *interpreter, fr *frame, fn *ssa.Function, a []value) value {
			ps := i.ps
			name := argStr(a[0])
			n := a[1].(int)
			cnt := ps.names[name]
			ps.names[name] = cnt + 1
			full := name
			if cnt > 0 {
				full = fmt.Sprintf("%s#%d", name, cnt)
			}
			nd := &nondet{name: full, kind: fmt.Sprintf("choose:%d", n)}
			ps.nondets = append(ps.nondets, nd)
			var k int
			if cv, ok := i.eng.Cfg.Concrete[full]; ok {
				fmt.Sscanf(cv, "%x", &k)
			} else {
				k = i.chooseK(n, 'v')
			}
			nd.conc = []uint64{uint64(k)}
			return k
		})
		reg(p+"vAssume", func(i *interpreter, fr *frame, fn *ssa.Function, a []value) value { i.assume(fr, a[0]); return nil })
		reg(p+"vAssert", func(i *interpreter, fr *frame, fn *ssa.Function, a []value) value {
			i.assertV(fr, a[0], argStr(a[1]))
			return nil
		})
		reg(p+"vCover", func(i *interpreter, fr *frame, fn *ssa.Function, a []value) value {
			i.ps.covers[argStr(a[0])] = true
			return nil
		})
		reg(p+"vNote", func(i *interpreter, fr *frame, fn *ssa.Function, a []value) value { i.ps.note(argStr(a[0])); return nil })
		reg(p+"vTier", func(i *interpreter, fr *frame, fn *ssa.Function, a []value) value { return i.eng.Cfg.Tier })
		reg(p+"vUnwind", func(i *interpreter, fr *frame, fn *ssa.Function, a []value) value { i.ps.unwind = a[0].(int); return nil })
		reg(p+"vConcCap", func(i *interpreter, fr *frame, fn *ssa.Function, a []value) value { i.ps.concCap = a[0].(int); return nil })
		reg(p+"vPreempt", func(i *interpreter, fr *frame, fn *ssa.Function, a []value) value { i.ps.preempt = a[0].(int); return nil })
		reg(p+"vSchedBlockFixed", func(i *interpreter, fr *frame, fn *ssa.Function, a []value) value {
			i.ps.schedBlockFixed = a[0].(bool)
			return nil
		})
		reg(p+"vSchedFixed", func(i *interpreter, fr *frame, fn *ssa.Function, a []value) value { i.ps.schedFixed = a[0].(bool); return nil })
		reg(p+"vMapOrders", func(i *interpreter, fr *frame, fn *ssa.Function, a []value) value { i.ps.mapOrders = a[0].(bool); return nil })
		reg(p+"vExpectPanic", func(i *interpreter, fr *frame, fn *ssa.Function, a []value) value { i.ps.expectPanic = a[0].(bool); return nil })
		reg(p+"vExpectDeadlock", func(i *interpreter, fr *frame, fn *ssa.Function, a []value) value { i.ps.expectDeadlock = a[0].(bool); return nil })
		reg(p+"vInput", func(i *interpreter, fr *frame, fn *ssa.Function, a []value) value { i.ps.inputLen = a[0].(int); return nil })
		reg(p+"vYield", func(i *interpreter, fr *frame, fn *ssa.Function, a []value) value { i.ps.sched.yield(fr); return nil })
		reg(p+"vNow", func(i *interpreter, fr *frame, fn *ssa.Function, a []value) value { i.ps.clock++; return i.ps.clock })
		reg(p+"vSymbolic", func(i *interpreter, fr *frame, fn *ssa.Function, a []value) value { return true })
		reg(p+"vAnd", func(i *interpreter, fr *frame, fn *ssa.Function, a []value) value {
			return lower(i.ps.ctx.And(i.term(a[0]), i.term(a[1])), types.Bool)
		})
		reg(p+"vOr", func(i *interpreter, fr *frame, fn *ssa.Function, a []value) value {
			return lower(i.ps.ctx.Or(i.term(a[0]), i.term(a[1])), types.Bool)
		})
		reg(p+"vImplies", func(i *interpreter, fr *frame, fn *ssa.Function, a []value) value {
			return lower(i.ps.ctx.Implies(i.term(a[0]), i.term(a[1])), types.Bool)
		})
		reg(p+"vNot", func(i *interpreter, fr *frame, fn *ssa.Function, a []value) value {
			return lower(i.ps.ctx.Not(i.term(a[0])), types.Bool)
		})
		reg(p+"vIteU64", func(i *interpreter, fr *frame, fn *ssa.Function, a []value) value {
			return lower(i.ps.ctx.Ite(i.term(a[0]), i.term(a[1]), i.term(a[2])), types.Uint64)
		})
		reg(p+"vIteInt", func(i *interpreter, fr *frame, fn *ssa.Function, a []value) value {
			return lower(i.ps.ctx.Ite(i.term(a[0]), i.term(a[1]), i.term(a[2])), types.Int)
		})
		reg(p+"vIteU8", func(i *interpreter, fr *frame, fn *ssa.Function, a []value) value {
			return lower(i.ps.ctx.Ite(i.term(a[0]), i.term(a[1]), i.term(a[2])), types.Uint8)
		})
		reg(p+"vEqBytes", func(i *interpreter, fr *frame, fn *ssa.Function, a []value) value {
			x, y := a[0].([]value), a[1].([]value)
			c := i.ps.ctx
			if len(x) != len(y) {
				return false
			}
			r := c.True
			for k := range x {
				r = c.And(r, c.Eq(i.term(x[k]), i.term(y[k])))
			}
			return lower(r, types.Bool)
		})
		// vUFTable: from now on look-ups in this []uint32 (256 entries) are the uninterpreted function UF32_<name>
		reg(p+"vUFTable", func(i *interpreter, fr *frame, fn *ssa.Function, a []value) value {
			cells := a[1].([]value)
			if i.ps.ufTables == nil {
				i.ps.ufTables = map[*value]string{}
			}
			i.ps.ufTables[&cells[0]] = smtName(argStr(a[0]))
			return nil
		})
		// vUF32: an uninterpreted function byte -> uint32 (used for the buzhash table)
		reg(p+"vUF32", func(i *interpreter, fr *frame, fn *ssa.Function, a []value) value {
			return lower(i.ps.ctx.App("UF32_"+smtName(argStr(a[0])), 32, i.term(a[1])), types.Uint32)
		})
		// vUFBool: an uninterpreted predicate over a byte string
		reg(p+"vUFBool", func(i *interpreter, fr *frame, fn *ssa.Function, a []value) value {
			bs := a[1].([]value)
			var parts []*smt.Term
			for _, b := range bs {
				parts = append(parts, i.term(b))
			}
			c := i.ps.ctx
			return lower(c.App(fmt.Sprintf("UFB_%s_%d", smtName(argStr(a[0])), len(bs)), 0, c.Concat(parts...)), types.Bool)
		})
	}
}

// ------------------------------------------------------------------ hashing (uninterpreted, collision-free)

type hashApp struct {
	alg string
	n   int
	in  *smt.Term
	out *smt.Term
}

func (i *interpreter) hashIntrinsic(alg string, data []value) value {
	ps := i.ps
	c := ps.ctx
	conc := true
	for _, b := range data {
		if isSym(b) {
			conc = false
			break
		}
	}
	n := len(data)
	var digest [32]byte
	if conc {
		bs := make([]byte, n)
		for k, b := range data {
			bs[k] = b.(byte)
		}
		if alg == "sha256" {
			digest = sha256.Sum256(bs)
		} else {
			digest = sha512.Sum512_256(bs)
		}
	}
	out := make(array, 32)
	if conc && len(ps.hashApps) == 0 && !ps.hashSym {
		// no symbolic application yet: remember lazily
		ps.hashConc = append(ps.hashConc, hashConc{alg, append([]value(nil), data...), digest})
		for k := range out {
			out[k] = digest[k]
		}
		return out
	}
	app := i.hashApp(alg, data)
	if conc {
		// tie the UF to the real digest
		var parts []*smt.Term
		for k := 0; k < 32; k += 8 {
			var v uint64
			for j := 0; j < 8; j++ {
				v = v<<8 | uint64(digest[k+j])
			}
			parts = append(parts, c.Const(v, 64))
		}
		ps.sol.Assert(c.Eq(app.out, c.Concat(parts...)))
		for k := range out {
			out[k] = digest[k]
		}
		return out
	}
	for k := 0; k < 32; k++ {
		hi := 255 - 8*k
		out[k] = lower(c.Extract(app.out, hi, hi-7), types.Uint8)
	}
	return out
}

type hashConc struct {
	alg    string
	data   []value
	digest [32]byte
}

func (i *interpreter) hashApp(alg string, data []value) hashApp {
	ps := i.ps
	c := ps.ctx
	if !ps.hashSym {
		ps.hashSym = true
		// flush the concrete applications seen so far
		pend := ps.hashConc
		ps.hashConc = nil
		for _, hc := range pend {
			i.hashIntrinsic(hc.alg, hc.data)
		}
	}
	n := len(data)
	var in *smt.Term
	if n == 0 {
		in = c.Const(0, 1)
	} else {
		parts := make([]*smt.Term, n)
		for k, b := range data {
			parts[k] = i.term(b)
		}
		in = c.Concat(parts...)
	}
	for _, a := range ps.hashApps {
		if a.alg == alg && a.n == n && a.in == in {
			return a
		}
	}
	app := hashApp{alg: alg, n: n, in: in, out: c.App(fmt.Sprintf("H_%s_%d", alg, n), 256, in)}
	// collision freedom against every earlier application
	for _, a := range ps.hashApps {
		if a.alg != alg {
			continue
		}
		if a.n == n {
			ps.sol.Assert(c.Implies(c.Eq(a.out, app.out), c.Eq(a.in, app.in)))
		} else {
			ps.sol.Assert(c.Not(c.Eq(a.out, app.out)))
		}
	}
	ps.hashApps = append(ps.hashApps, app)
	return app
}

func init() {
	reg("crypto/sha512.Sum512_256", func(i *interpreter, fr *frame, fn *ssa.Function, a []value) value {
		return i.hashIntrinsic("sha512_256", a[0].([]value))
	})
	reg("crypto/sha256.Sum256", func(i *interpreter, fr *frame, fn *ssa.Function, a []value) value {
		return i.hashIntrinsic("sha256", a[0].([]value))
	})
}

// ------------------------------------------------------------------ errors, fmt

// newError builds an error value through errors.New of the target program.
func (i *interpreter) newError(fr *frame, msg string) value {
	p := i.prog.ImportedPackage("errors")
	return callIn(i, fr, fr.g, token.NoPos, p.Func("New"), []value{msg})
}

// callMethod invokes method name on the dynamic value of itf (nil if absent).
func (i *interpreter) findMethod(t types.Type, name string) *ssa.Function {
	ms := i.prog.MethodSets.MethodSet(t)
	for k := 0; k < ms.Len(); k++ {
		sel := ms.At(k)
		if sel.Obj().Name() == name {
			return i.prog.MethodValue(sel)
		}
	}
	return nil
}

func (i *interpreter) unwrapErr(fr *frame, e iface) []iface {
	if e.t == nil {
		return nil
	}
	m := i.findMethod(e.t, "Unwrap")
	if m == nil {
		return nil
	}
	res := m.Signature.Results()
	if res.Len() != 1 {
		return nil
	}
	r := callIn(i, fr, fr.g, token.NoPos, m, []value{e.v})
	switch r := r.(type) {
	case iface:
		if r.t == nil {
			return nil
		}
		return []iface{r}
	case []value:
		var out []iface
		for _, x := range r {
			if xi, ok := x.(iface); ok && xi.t != nil {
				out = append(out, xi)
			}
		}
		return out
	}
	return nil
}

func (i *interpreter) errorsIs(fr *frame, err, target iface) bool {
	if err.t == nil || target.t == nil {
		return err.t == nil && target.t == nil
	}
	comparable := types.Comparable(target.t)
	var rec func(e iface) bool
	rec = func(e iface) bool {
		if comparable && sameType(e.t, target.t) {
			if hasSym(e.v) || hasSym(target.v) {
				if i.branch(fr, i.symEq(e.t, e.v, target.v), "errors.Is") {
					return true
				}
			} else if equals(e.t, e.v, target.v) {
				return true
			}
		}
		if m := i.findMethod(e.t, "Is"); m != nil && m.Signature.Params().Len() == 1 {
			if r, ok := callIn(i, fr, fr.g, token.NoPos, m, []value{e.v, target}).(bool); ok && r {
				return true
			}
		}
		for _, u := range i.unwrapErr(fr, e) {
			if rec(u) {
				return true
			}
		}
		return false
	}
	return rec(err)
}

func (i *interpreter) errorsAs(fr *frame, err iface, target iface) bool {
	if err.t == nil {
		return false
	}
	pt, ok := target.t.Underlying().(*types.Pointer)
	if !ok || target.v.(*value) == nil {
		panic(targetPanic{iface{i.runtimeErrorString, "errors: target must be a non-nil pointer"}})
	}
	tt := pt.Elem()
	_, isIface := tt.Underlying().(*types.Interface)
	var rec func(e iface) bool
	rec = func(e iface) bool {
		if isIface {
			if m, _ := types.MissingMethod(e.t, tt.Underlying().(*types.Interface), true); m == nil {
				*target.v.(*value) = e
				return true
			}
		} else if types.Identical(e.t, tt) {
			store(tt, target.v.(*value), e.v)
			return true
		}
		if m := i.findMethod(e.t, "As"); m != nil && m.Signature.Params().Len() == 1 {
			if r, ok := callIn(i, fr, fr.g, token.NoPos, m, []value{e.v, target}).(bool); ok && r {
				return true
			}
		}
		for _, u := range i.unwrapErr(fr, e) {
			if rec(u) {
				return true
			}
		}
		return false
	}
	return rec(err)
}

func (i *interpreter) fmtOpaque(fr *frame, args []value) string { return "<formatted>" }

func init() {
	reg("errors.Is", func(i *interpreter, fr *frame, fn *ssa.Function, a []value) value {
		return i.errorsIs(fr, a[0].(iface), a[1].(iface))
	})
	reg("errors.As", func(i *interpreter, fr *frame, fn *ssa.Function, a []value) value {
		return i.errorsAs(fr, a[0].(iface), a[1].(iface))
	})
	reg("github.com/pkg/errors.callers", func(i *interpreter, fr *frame, fn *ssa.Function, a []value) value { return (*value)(nil) })
	reg("github.com/pkg/errors.Is", func(i *interpreter, fr *frame, fn *ssa.Function, a []value) value {
		return i.errorsIs(fr, a[0].(iface), a[1].(iface))
	})
	reg("github.com/pkg/errors.As", func(i *interpreter, fr *frame, fn *ssa.Function, a []value) value {
		return i.errorsAs(fr, a[0].(iface), a[1].(iface))
	})
	str := func(i *interpreter, fr *frame, fn *ssa.Function, a []value) value { return "<formatted>" }
	reg("fmt.Sprintf", func(i *interpreter, fr *frame, fn *ssa.Function, a []value) value {
		if f, ok := a[0].(string); ok && !strings.Contains(f, "%") {
			return f
		}
		return "<formatted>"
	})
	reg("fmt.Sprint", str)
	reg("fmt.Sprintln", str)
	reg("fmt.Errorf", func(i *interpreter, fr *frame, fn *ssa.Function, a []value) value {
		// keep %w chains: the first error operand becomes the wrapped cause
		format, _ := a[0].(string)
		if strings.Contains(format, "%w") {
			for _, x := range a[1].([]value) {
				if xi, ok := x.(iface); ok && xi.t != nil && i.findMethod(xi.t, "Error") != nil {
					pk := i.prog.ImportedPackage("github.com/pkg/errors")
					if pk != nil {
						return callIn(i, fr, fr.g, token.NoPos, pk.Func("WithMessage"), []value{xi, "<formatted>"})
					}
				}
			}
		}
		return i.newError(fr, "<formatted: "+format+">")
	})
}

// ------------------------------------------------------------------ internal/bytealg and friends

func (i *interpreter) indexByte(fr *frame, cells []value, c value) value {
	cx := i.ps.ctx
	for k, b := range cells {
		_, bs := b.(sym)
		_, cs := c.(sym)
		if bs || cs {
			if i.branch(fr, cx.Eq(i.term(b), i.term(c)), "IndexByte") {
				return k
			}
			continue
		}
		if b.(byte) == c.(byte) {
			return k
		}
	}
	return -1
}

func (i *interpreter) bytesEqual(fr *frame, x, y []value) value {
	if len(x) != len(y) {
		return false
	}
	c := i.ps.ctx
	r := c.True
	for k := range x {
		r = c.And(r, c.Eq(i.term(x[k]), i.term(y[k])))
		if r == c.False {
			return false
		}
	}
	return lower(r, types.Bool)
}

func init() {
	reg("internal/bytealg.IndexByte", func(i *interpreter, fr *frame, fn *ssa.Function, a []value) value {
		return i.indexByte(fr, a[0].([]value), a[1])
	})
	reg("internal/bytealg.IndexByteString", func(i *interpreter, fr *frame, fn *ssa.Function, a []value) value {
		return i.indexByte(fr, strBytes(a[0]), a[1])
	})
	reg("bytes.IndexByte", func(i *interpreter, fr *frame, fn *ssa.Function, a []value) value {
		return i.indexByte(fr, a[0].([]value), a[1])
	})
	reg("strings.IndexByte", func(i *interpreter, fr *frame, fn *ssa.Function, a []value) value {
		return i.indexByte(fr, strBytes(a[0]), a[1])
	})
	reg("internal/bytealg.Equal", func(i *interpreter, fr *frame, fn *ssa.Function, a []value) value {
		return i.bytesEqual(fr, a[0].([]value), a[1].([]value))
	})
	reg("bytes.Equal", func(i *interpreter, fr *frame, fn *ssa.Function, a []value) value {
		return i.bytesEqual(fr, a[0].([]value), a[1].([]value))
	})
	reg("internal/bytealg.Compare", func(i *interpreter, fr *frame, fn *ssa.Function, a []value) value {
		x, y := a[0].([]value), a[1].([]value)
		if lt := i.strLessTerm(x, y); i.condBool(fr, lower(lt, types.Bool)) {
			return -1
		}
		if gt := i.strLessTerm(y, x); i.condBool(fr, lower(gt, types.Bool)) {
			return 1
		}
		return 0
	})
	cnt := func(i *interpreter, fr *frame, cells []value, c value) value {
		n := 0
		for _, b := range cells {
			if i.condBool(fr, i.binop(fr, token.EQL, types.Typ[types.Uint8], types.Typ[types.Uint8], b, c)) {
				n++
			}
		}
		return n
	}
	reg("internal/bytealg.Count", func(i *interpreter, fr *frame, fn *ssa.Function, a []value) value {
		return cnt(i, fr, a[0].([]value), a[1])
	})
	reg("internal/bytealg.CountString", func(i *interpreter, fr *frame, fn *ssa.Function, a []value) value {
		return cnt(i, fr, strBytes(a[0]), a[1])
	})
	reg("internal/bytealg.MakeNoZero", func(i *interpreter, fr *frame, fn *ssa.Function, a []value) value {
		n := a[0].(int)
		out := make([]value, n)
		for k := range out {
			out[k] = byte(0)
		}
		return out
	})
	// strings.Builder (unsafe-backed): state lives in its buf field
	bld := func(a []value) *value { return &(*a[0].(*value)).(structure)[1] }
	reg("(*strings.Builder).String", func(i *interpreter, fr *frame, fn *ssa.Function, a []value) value {
		b, _ := (*bld(a)).([]value)
		return mkstr(append([]value(nil), b...))
	})
	reg("(*strings.Builder).Len", func(i *interpreter, fr *frame, fn *ssa.Function, a []value) value {
		b, _ := (*bld(a)).([]value)
		return len(b)
	})
	reg("(*strings.Builder).Cap", func(i *interpreter, fr *frame, fn *ssa.Function, a []value) value {
		b, _ := (*bld(a)).([]value)
		return cap(b)
	})
	reg("(*strings.Builder).Reset", func(i *interpreter, fr *frame, fn *ssa.Function, a []value) value {
		*bld(a) = []value(nil)
		return nil
	})
	reg("(*strings.Builder).Grow", func(i *interpreter, fr *frame, fn *ssa.Function, a []value) value { return nil })
	reg("(*strings.Builder).WriteString", func(i *interpreter, fr *frame, fn *ssa.Function, a []value) value {
		b, _ := (*bld(a)).([]value)
		s := strBytes(a[1])
		*bld(a) = append(b, s...)
		return tuple{len(s), iface{}}
	})
	reg("(*strings.Builder).Write", func(i *interpreter, fr *frame, fn *ssa.Function, a []value) value {
		b, _ := (*bld(a)).([]value)
		s := a[1].([]value)
		*bld(a) = append(b, s...)
		return tuple{len(s), iface{}}
	})
	reg("(*strings.Builder).WriteByte", func(i *interpreter, fr *frame, fn *ssa.Function, a []value) value {
		b, _ := (*bld(a)).([]value)
		*bld(a) = append(b, a[1])
		return iface{}
	})
	reg("(*strings.Builder).WriteRune", func(i *interpreter, fr *frame, fn *ssa.Function, a []value) value {
		b, _ := (*bld(a)).([]value)
		r, ok := a[1].(int32)
		if !ok {
			i.abort(outUnsupported, "strings.Builder.WriteRune of a symbolic rune")
		}
		s := strBytes(string(r))
		*bld(a) = append(b, s...)
		return tuple{len(s), iface{}}
	})
	reg("unsafe.String", nil)
	delete(intrinsics, "unsafe.String")
}

// ------------------------------------------------------------------ sync, atomic, time, runtime

func init() {
	reg("(*sync.Mutex).Lock", func(i *interpreter, fr *frame, fn *ssa.Function, a []value) value { i.mutexLock(fr, a[0].(*value)); return nil })
	reg("(*sync.Mutex).Unlock", func(i *interpreter, fr *frame, fn *ssa.Function, a []value) value {
		i.mutexUnlock(fr, a[0].(*value))
		return nil
	})
	reg("(*sync.Mutex).TryLock", func(i *interpreter, fr *frame, fn *ssa.Function, a []value) value {
		return i.mutexTryLock(fr, a[0].(*value))
	})
	reg("(*sync.RWMutex).TryLock", func(i *interpreter, fr *frame, fn *ssa.Function, a []value) value {
		return i.mutexTryLock(fr, a[0].(*value))
	})
	reg("(*sync.RWMutex).Lock", func(i *interpreter, fr *frame, fn *ssa.Function, a []value) value { i.mutexLock(fr, a[0].(*value)); return nil })
	reg("(*sync.RWMutex).Unlock", func(i *interpreter, fr *frame, fn *ssa.Function, a []value) value {
		i.mutexUnlock(fr, a[0].(*value))
		return nil
	})
	reg("(*sync.RWMutex).RLock", func(i *interpreter, fr *frame, fn *ssa.Function, a []value) value {
		i.mutexRLock(fr, a[0].(*value))
		return nil
	})
	reg("(*sync.RWMutex).RUnlock", func(i *interpreter, fr *frame, fn *ssa.Function, a []value) value {
		i.mutexRUnlock(fr, a[0].(*value))
		return nil
	})
	reg("(*sync.WaitGroup).Add", func(i *interpreter, fr *frame, fn *ssa.Function, a []value) value {
		w := i.waitgroup(a[0].(*value))
		w.n += asInt64(a[1])
		if w.n < 0 {
			panic(runtimeErr("sync: negative WaitGroup counter"))
		}
		i.ps.sched.yield(fr)
		return nil
	})
	reg("(*sync.WaitGroup).Done", func(i *interpreter, fr *frame, fn *ssa.Function, a []value) value {
		w := i.waitgroup(a[0].(*value))
		w.n--
		if w.n < 0 {
			panic(runtimeErr("sync: negative WaitGroup counter"))
		}
		i.ps.sched.yield(fr)
		return nil
	})
	reg("(*sync.WaitGroup).Wait", func(i *interpreter, fr *frame, fn *ssa.Function, a []value) value {
		w := i.waitgroup(a[0].(*value))
		i.ps.sched.yield(fr)
		i.ps.sched.block(fr, func() bool { return w.n == 0 }, "WaitGroup.Wait")
		return nil
	})
	// sync.Pool: a pool may drop or return anything that was Put.  For pools whose New function
	// belongs to the code under test both behaviours are explored (recycled object first);
	// pools of library code always allocate (their recycling is not the subject).
	reg("(*sync.Pool).Get", func(i *interpreter, fr *frame, fn *ssa.Function, a []value) value {
		cell := a[0].(*value)
		st := (*cell).(structure)
		nf := st[len(st)-1]
		if items := i.ps.pools[cell]; len(items) > 0 {
			if i.choose(2, "sync.Pool.Get") == 0 {
				it := items[len(items)-1]
				i.ps.pools[cell] = items[:len(items)-1]
				return it
			}
		}
		switch f := nf.(type) {
		case *ssa.Function:
			if f == nil {
				return iface{}
			}
		}
		return callIn(i, fr, fr.g, token.NoPos, nf, nil)
	})
	reg("(*sync.Pool).Put", func(i *interpreter, fr *frame, fn *ssa.Function, a []value) value {
		cell := a[0].(*value)
		st := (*cell).(structure)
		own := false
		switch f := st[len(st)-1].(type) {
		case *ssa.Function:
			own = f != nil && f.Pkg != nil && strings.HasPrefix(f.Pkg.Pkg.Path(), desyncPath)
		case *closure:
			own = f.Fn.Pkg != nil && strings.HasPrefix(f.Fn.Pkg.Pkg.Path(), desyncPath)
		}
		if own {
			if i.ps.pools == nil {
				i.ps.pools = map[*value][]value{}
			}
			i.ps.pools[cell] = append(i.ps.pools[cell], a[1])
		}
		return nil
	})

	// sync.Map: a map[any]any behind the receiver's address (one goroutine runs at a time in this
	// engine and the operations are atomic, so no further synchronisation is modelled)
	smap := func(i *interpreter, cell *value) *hashmap {
		if i.ps.syncMaps == nil {
			i.ps.syncMaps = map[*value]*hashmap{}
		}
		m := i.ps.syncMaps[cell]
		if m == nil {
			m = makeMap(types.NewInterfaceType(nil, nil), 0).(*hashmap)
			i.ps.syncMaps[cell] = m
		}
		return m
	}
	reg("(*sync.Map).Load", func(i *interpreter, fr *frame, fn *ssa.Function, a []value) value {
		v, ok := smap(i, a[0].(*value)).lookup(i, fr, a[1])
		if !ok {
			return tuple{iface{}, false}
		}
		return tuple{v, true}
	})
	reg("(*sync.Map).Store", func(i *interpreter, fr *frame, fn *ssa.Function, a []value) value {
		smap(i, a[0].(*value)).insert(i, fr, a[1], a[2])
		return nil
	})
	reg("(*sync.Map).LoadOrStore", func(i *interpreter, fr *frame, fn *ssa.Function, a []value) value {
		m := smap(i, a[0].(*value))
		if v, ok := m.lookup(i, fr, a[1]); ok {
			return tuple{v, true}
		}
		m.insert(i, fr, a[1], a[2])
		return tuple{a[2], false}
	})
	reg("(*sync.Map).LoadAndDelete", func(i *interpreter, fr *frame, fn *ssa.Function, a []value) value {
		m := smap(i, a[0].(*value))
		v, ok := m.lookup(i, fr, a[1])
		if !ok {
			return tuple{iface{}, false}
		}
		m.delete(i, fr, a[1])
		return tuple{v, true}
	})
	reg("(*sync.Map).Delete", func(i *interpreter, fr *frame, fn *ssa.Function, a []value) value {
		smap(i, a[0].(*value)).delete(i, fr, a[1])
		return nil
	})
	reg("(*sync.Map).Range", func(i *interpreter, fr *frame, fn *ssa.Function, a []value) value {
		m := smap(i, a[0].(*value))
		for _, e := range append([]*entry(nil), m.ents...) {
			if e.dead {
				continue
			}
			if r, _ := callIn(i, fr, fr.g, token.NoPos, a[1], []value{e.key, e.value}).(bool); !r {
				break
			}
		}
		return nil
	})

	// sync/atomic free functions operate on cells
	for _, T := range []string{"Int32", "Int64", "Uint32", "Uint64", "Uintptr", "Pointer"} {
		T := T
		reg("sync/atomic.Load"+T, func(i *interpreter, fr *frame, fn *ssa.Function, a []value) value { return *a[0].(*value) })
		reg("sync/atomic.Store"+T, func(i *interpreter, fr *frame, fn *ssa.Function, a []value) value {
			*a[0].(*value) = a[1]
			return nil
		})
		reg("sync/atomic.Swap"+T, func(i *interpreter, fr *frame, fn *ssa.Function, a []value) value {
			old := *a[0].(*value)
			*a[0].(*value) = a[1]
			return old
		})
		reg("sync/atomic.CompareAndSwap"+T, func(i *interpreter, fr *frame, fn *ssa.Function, a []value) value {
			p := a[0].(*value)
			t := fn.Signature.Params().At(1).Type()
			if i.condBool(fr, i.binop(fr, token.EQL, t, t, *p, a[1])) {
				*p = a[2]
				return true
			}
			return false
		})
		if T != "Pointer" {
			reg("sync/atomic.Add"+T, func(i *interpreter, fr *frame, fn *ssa.Function, a []value) value {
				p := a[0].(*value)
				t := fn.Signature.Params().At(1).Type()
				*p = i.binop(fr, token.ADD, t, t, *p, a[1])
				return *p
			})
			reg("sync/atomic.And"+T, func(i *interpreter, fr *frame, fn *ssa.Function, a []value) value {
				p := a[0].(*value)
				t := fn.Signature.Params().At(1).Type()
				old := *p
				*p = i.binop(fr, token.AND, t, t, *p, a[1])
				return old
			})
			reg("sync/atomic.Or"+T, func(i *interpreter, fr *frame, fn *ssa.Function, a []value) value {
				p := a[0].(*value)
				t := fn.Signature.Params().At(1).Type()
				old := *p
				*p = i.binop(fr, token.OR, t, t, *p, a[1])
				return old
			})
		}
	}
	// atomic.Value keeps the interface in its only field
	av := func(a []value) *value { return &(*a[0].(*value)).(structure)[0] }
	reg("(*sync/atomic.Value).Load", func(i *interpreter, fr *frame, fn *ssa.Function, a []value) value { return *av(a) })
	reg("(*sync/atomic.Value).Store", func(i *interpreter, fr *frame, fn *ssa.Function, a []value) value {
		if a[1].(iface).t == nil {
			panic(runtimeErr("sync/atomic: store of nil value into Value"))
		}
		*av(a) = a[1]
		return nil
	})
	reg("(*sync/atomic.Value).Swap", func(i *interpreter, fr *frame, fn *ssa.Function, a []value) value {
		old := *av(a)
		*av(a) = a[1]
		return old
	})
	reg("(*sync/atomic.Value).CompareAndSwap", func(i *interpreter, fr *frame, fn *ssa.Function, a []value) value {
		cur := (*av(a)).(iface)
		old := a[1].(iface)
		if sameType(cur.t, old.t) && (cur.t == nil || equals(cur.t, cur.v, old.v)) {
			*av(a) = a[2]
			return true
		}
		return false
	})

	reg("time.Sleep", func(i *interpreter, fr *frame, fn *ssa.Function, a []value) value {
		i.ps.clock += 1
		i.ps.sleeps++
		i.ps.sched.yield(fr)
		return nil
	})
	reg("time.now", func(i *interpreter, fr *frame, fn *ssa.Function, a []value) value {
		i.ps.clock++
		return tuple{int64(1700000000 + i.ps.clock), int32(0), int64(i.ps.clock * 1000)}
	})
	reg("time.runtimeNano", func(i *interpreter, fr *frame, fn *ssa.Function, a []value) value {
		return int64(i.ps.clock * 1000)
	})
	reg("runtime.Gosched", func(i *interpreter, fr *frame, fn *ssa.Function, a []value) value { i.ps.sched.yield(fr); return nil })
	reg("runtime.NumCPU", func(i *interpreter, fr *frame, fn *ssa.Function, a []value) value { return 4 })
	reg("runtime.GOMAXPROCS", func(i *interpreter, fr *frame, fn *ssa.Function, a []value) value { return 4 })
	reg("runtime.KeepAlive", func(i *interpreter, fr *frame, fn *ssa.Function, a []value) value { return nil })
	reg("runtime.SetFinalizer", func(i *interpreter, fr *frame, fn *ssa.Function, a []value) value { return nil })
	// the environment starts empty; what the harness sets with os.Setenv is what the code sees
	reg("os.Getenv", func(i *interpreter, fr *frame, fn *ssa.Function, a []value) value {
		if v, ok := i.ps.env[pathStr(a[0])]; ok {
			return v
		}
		return ""
	})
	reg("os.LookupEnv", func(i *interpreter, fr *frame, fn *ssa.Function, a []value) value {
		if v, ok := i.ps.env[pathStr(a[0])]; ok {
			return tuple{v, true}
		}
		return tuple{"", false}
	})
	reg("os.Setenv", func(i *interpreter, fr *frame, fn *ssa.Function, a []value) value {
		if i.ps.env == nil {
			i.ps.env = map[string]value{}
		}
		i.ps.env[pathStr(a[0])] = a[1]
		return iface{}
	})
	reg("os.Unsetenv", func(i *interpreter, fr *frame, fn *ssa.Function, a []value) value {
		delete(i.ps.env, pathStr(a[0]))
		return iface{}
	})
	// JSON output of statistics / info commands: the text is not the subject of any property
	for _, n := range []string{"encoding/json.MarshalIndent", "encoding/json.Marshal"} {
		reg(n, func(i *interpreter, fr *frame, fn *ssa.Function, a []value) value {
			return tuple{[]value{byte('{'), byte('}')}, iface{}}
		})
	}
	// there is no network: a server that is asked to listen fails at once
	for _, n := range []string{"(*net/http.Server).ListenAndServe", "(*net/http.Server).ListenAndServeTLS"} {
		reg(n, func(i *interpreter, fr *frame, fn *ssa.Function, a []value) value {
			return i.newError(fr, "listen: no network in the model")
		})
	}
	reg("os.Getpid", func(i *interpreter, fr *frame, fn *ssa.Function, a []value) value { return 4242 })
	reg("os.Getuid", func(i *interpreter, fr *frame, fn *ssa.Function, a []value) value { return 0 })
	reg("os.Geteuid", func(i *interpreter, fr *frame, fn *ssa.Function, a []value) value { return 0 })
	reg("os.Exit", func(i *interpreter, fr *frame, fn *ssa.Function, a []value) value {
		i.abort(outOK, "os.Exit called")
		return nil
	})
	reg(desyncPath+".NewProgressBar", func(i *interpreter, fr *frame, fn *ssa.Function, a []value) value {
		p := i.prog.ImportedPackage(desyncPath)
		return iface{t: p.Type("NullProgressBar").Type(), v: structure{}}
	})
	reg("math.Float64bits", func(i *interpreter, fr *frame, fn *ssa.Function, a []value) value {
		return ext۰math۰Float64bits(fr, a)
	})
	reg("math.Float64frombits", func(i *interpreter, fr *frame, fn *ssa.Function, a []value) value {
		return ext۰math۰Float64frombits(fr, a)
	})
	reg("math.Float32bits", func(i *interpreter, fr *frame, fn *ssa.Function, a []value) value {
		return ext۰math۰Float32bits(fr, a)
	})
	reg("math.Float32frombits", func(i *interpreter, fr *frame, fn *ssa.Function, a []value) value {
		return ext۰math۰Float32frombits(fr, a)
	})
	reg("math.Log2", func(i *interpreter, fr *frame, fn *ssa.Function, a []value) value { return mathLog2(a[0].(float64)) })
	reg("math.Log", func(i *interpreter, fr *frame, fn *ssa.Function, a []value) value { return ext۰math۰Log(fr, a) })
	reg("math.Floor", func(i *interpreter, fr *frame, fn *ssa.Function, a []value) value { return mathFloor(a[0].(float64)) })
	reg("math.Ceil", func(i *interpreter, fr *frame, fn *ssa.Function, a []value) value { return mathCeil(a[0].(float64)) })
	reg("math.Sqrt", func(i *interpreter, fr *frame, fn *ssa.Function, a []value) value { return ext۰math۰Sqrt(fr, a) })
	reg("math.Pow", func(i *interpreter, fr *frame, fn *ssa.Function, a []value) value {
		return mathPow(a[0].(float64), a[1].(float64))
	})

	// sort.Slice: insertion sort driven by the target's less closure
	sortSlice := func(i *interpreter, fr *frame, fn *ssa.Function, a []value) value {
		sl, _ := a[0].(iface).v.([]value)
		less := a[1]
		et := a[0].(iface).t.Underlying().(*types.Slice).Elem()
		for k := 1; k < len(sl); k++ {
			for j := k; j > 0; j-- {
				r := callIn(i, fr, fr.g, token.NoPos, less, []value{j, j - 1})
				if !i.condBool(fr, r) {
					break
				}
				x, y := load(et, &sl[j]), load(et, &sl[j-1])
				store(et, &sl[j], y)
				store(et, &sl[j-1], x)
			}
		}
		return nil
	}
	reg("sort.Slice", sortSlice)
	reg("sort.SliceStable", sortSlice)
}

// ------------------------------------------------------------------ zstd model
//
// klauspost's encoder/decoder cannot be encoded.  Model: a frame is the zstd
// magic followed by the payload; decoding anything without the magic fails;
// decoding a frame with symbolic payload bytes may also fail (corrupt frame), with
// or without partial output.

var zstdMagic = []byte{0x28, 0xB5, 0x2F, 0xFD}

func init() {
	reg("(*github.com/klauspost/compress/zstd.Encoder).EncodeAll", func(i *interpreter, fr *frame, fn *ssa.Function, a []value) value {
		src := a[1].([]value)
		dst, _ := a[2].([]value)
		for _, b := range zstdMagic {
			dst = append(dst, b)
		}
		i.ps.zframes = append(i.ps.zframes, append([]value(nil), src...))
		return append(dst, src...)
	})
	reg("(*github.com/klauspost/compress/zstd.Decoder).DecodeAll", func(i *interpreter, fr *frame, fn *ssa.Function, a []value) value {
		src := a[1].([]value)
		dst, _ := a[2].([]value)
		bad := func() value { return tuple{[]value(nil), i.newError(fr, "zstd: invalid input (model)")} }
		if len(src) == 0 {
			// no frame at all: the real DecodeAll returns what it was given, without an error
			return tuple{dst, iface{}}
		}
		if len(src) < len(zstdMagic) {
			return bad()
		}
		c := i.ps.ctx
		ok := c.True
		for k, m := range zstdMagic {
			ok = c.And(ok, c.Eq(i.term(src[k]), c.Const(uint64(m), 8)))
		}
		if !i.branch(fr, ok, "zstd-magic") {
			return bad()
		}
		payload := src[len(zstdMagic):]
		// a frame this process produced itself is valid
		for _, f := range i.ps.zframes {
			if len(f) != len(payload) {
				continue
			}
			same := true
			for k := range f {
				if f[k] != payload[k] {
					same = false
					break
				}
			}
			if same {
				return tuple{append(dst, payload...), iface{}}
			}
		}
		// a frame this process did not produce may be rejected by the real decoder - before
		// producing anything, or (like the real DecodeAll) after handing back the bytes decoded so
		// far together with the error
		// (a decoder is deterministic: the same bytes get the same verdict every time on a path)
		key := fmt.Sprint(payload)
		verdict, seen := i.ps.zverdicts[key]
		if !seen {
			verdict = i.choose(3, "zstd-corrupt")
			if i.ps.zverdicts == nil {
				i.ps.zverdicts = map[string]int{}
			}
			i.ps.zverdicts[key] = verdict
		}
		switch verdict {
		case 1:
			return bad()
		case 2:
			return tuple{append(dst, payload...), i.newError(fr, "zstd: corrupt frame after partial output (model)")}
		}
		return tuple{append(dst, payload...), iface{}}
	})
}

// ------------------------------------------------------------------ net/http client boundary
//
// (*http.Client).Do hands the request straight to the client's Transport
// (a harness-defined RoundTripper); redirects, cookies and timeouts of
// net/http are outside the encoding.

func init() {
	do := func(i *interpreter, fr *frame, fn *ssa.Function, a []value) value {
		cl := a[0].(*value)
		if cl == nil {
			panic(runtimeErr("invalid memory address or nil pointer dereference"))
		}
		T := i.namedType("net/http", "Client")
		tr := (*cl).(structure)[fieldIndex(T, "Transport")].(iface)
		if tr.t == nil {
			i.abort(outUnsupported, "http.Client.Do without a harness transport (real network is not modelled)")
		}
		if pt, ok := tr.t.(*types.Pointer); ok {
			if nt, ok := pt.Elem().(*types.Named); ok && nt.Obj().Pkg() != nil && nt.Obj().Pkg().Path() == "net/http" && nt.Obj().Name() == "Transport" {
				// a real *http.Transport (built by the code under test, e.g. from a store URL): the
				// network behind it is whatever the harness registered in its variable verifNetwork
				var hook iface
				for _, path := range []string{desyncPath + "/cmd/desync", desyncPath} {
					if p := i.prog.ImportedPackage(path); p != nil {
						if g := p.Var("verifNetwork"); g != nil && i.globals[g] != nil {
							if h, ok := (*i.globals[g]).(iface); ok && h.t != nil {
								hook = h
								break
							}
						}
					}
				}
				if hook.t == nil {
					i.abort(outUnsupported, "request through a real http.Transport and no verifNetwork registered by the harness")
				}
				tr = hook
			}
		}
		m := i.findMethod(tr.t, "RoundTrip")
		if m == nil {
			i.abort(outUnsupported, "transport without RoundTrip")
		}
		if len(i.ps.sched.gs) > 1 {
			i.ps.sched.yield(fr)
		}
		res := callIn(i, fr, fr.g, token.NoPos, m, []value{tr.v, a[1]}).(tuple)
		if e, ok := res[1].(iface); ok && e.t != nil {
			// net/http reports transport failures as *url.Error (which is a net.Error)
			T := i.namedType("net/url", "Error")
			u := zero(T).(structure)
			u[fieldIndex(T, "Op")] = "Get"
			u[fieldIndex(T, "URL")] = "<url>"
			u[fieldIndex(T, "Err")] = e
			var v value = u
			res = tuple{res[0], iface{t: types.NewPointer(T), v: &v}}
		}
		return res
	}
	reg("(*net/http.Client).Do", do)
	reg("(*net/http.Client).do", do)
	reg("net/http.ProxyFromEnvironment", func(i *interpreter, fr *frame, fn *ssa.Function, a []value) value {
		return tuple{(*value)(nil), iface{}}
	})
}

// ------------------------------------------------------------------ abstract time.Time
//
// time.Unix(sec, nsec) divides by 10^9, which no installed solver decides for 64-bit
// symbolic operands.  Instants built by time.Unix are therefore kept as an abstract value
// {wall: 0, ext: total nanoseconds since the epoch, loc: marker}; UnixNano/Unix/Nanosecond/
// Equal/Before/After/IsZero on such a value work on the nanosecond count.  Values from
// other sources (time.Now stub, literals) keep the real representation.

func (i *interpreter) absLoc() *value {
	ps := i.ps
	if ps.absLoc == nil {
		var v value = zero(i.namedType("time", "Location"))
		ps.absLoc = &v
	}
	return ps.absLoc
}

// absInstant splits a concrete abstract instant into (seconds, nanoseconds) with floor division.
func absInstant(st structure) (*big.Int, *big.Int) {
	hi, _ := st[0].(uint64)
	lo, _ := st[1].(int64)
	v := new(big.Int).Lsh(big.NewInt(int64(hi)), 64)
	v.Add(v, new(big.Int).SetUint64(uint64(lo)))
	q, r := new(big.Int).DivMod(v, big.NewInt(1000000000), new(big.Int))
	return q, r
}

// wallToAbs converts a concrete time.Time {wall, ext, loc} into the abstract form {hi, lo, marker}
// (128-bit nanoseconds since the Unix epoch).
func (i *interpreter) wallToAbs(t value) (structure, bool) {
	st, ok := t.(structure)
	if !ok || len(st) != 3 {
		return nil, false
	}
	wall, ok1 := st[0].(uint64)
	ext, ok2 := st[1].(int64)
	if !ok1 || !ok2 {
		return nil, false
	}
	const (
		hasMonotonic   = 1 << 63
		nsecMask       = 1<<30 - 1
		unixToInternal = 62135596800 // seconds from year 1 to 1970
		wallToInternal = 59453308800 // seconds from year 1 to 1885
	)
	sec := ext // seconds since year 1
	if wall&hasMonotonic != 0 {
		sec = int64(wall<<1>>31) + wallToInternal
	}
	ns := new(big.Int).Mul(big.NewInt(sec-unixToInternal), big.NewInt(1000000000))
	ns.Add(ns, big.NewInt(int64(wall&nsecMask)))
	mod := new(big.Int).Lsh(big.NewInt(1), 64)
	lo := new(big.Int).Mod(ns, mod) // non-negative
	hi := new(big.Int).Rsh(new(big.Int).Sub(ns, lo), 64)
	return structure{uint64(hi.Int64()), int64(lo.Uint64()), i.absLoc()}, true
}

func (i *interpreter) isAbsTime(t value) (structure, bool) {
	st, ok := t.(structure)
	if !ok || len(st) != 3 {
		return nil, false
	}
	p, ok := st[2].(*value)
	return st, ok && p != nil && p == i.ps.absLoc
}

func init() {
	reg("time.Unix", func(i *interpreter, fr *frame, fn *ssa.Function, a []value) value {
		// instant = sec*10^9 + nsec as a 128-bit two's complement number {hi: wall, lo: ext}; instants
		// that differ by a multiple of 2^64 ns (584 years) stay different, as they do in time.Time
		c := i.ps.ctx
		_, ss := a[0].(sym)
		_, ns := a[1].(sym)
		if !ss && !ns {
			v := new(big.Int).Mul(big.NewInt(a[0].(int64)), big.NewInt(1000000000))
			v.Add(v, big.NewInt(a[1].(int64)))
			m := new(big.Int).And(v, new(big.Int).SetUint64(^uint64(0)))
			hi := new(big.Int).Rsh(v, 64) // arithmetic shift: floor division
			return structure{uint64(hi.Int64()), int64(m.Uint64()), i.absLoc()}
		}
		if !ss && a[0].(int64) == 0 {
			// time.Unix(0, n): hi is the sign extension of n
			n := i.term(a[1])
			hi := c.Bin(smt.OpBvAshr, n, c.Const(63, 64))
			return structure{lower(hi, types.Uint64), a[1], i.absLoc()}
		}
		wide := c.Bin(smt.OpBvAdd, c.Bin(smt.OpBvMul, c.Sext(i.term(a[0]), 128), c.Sext(c.Const(1000000000, 64), 128)), c.Sext(i.term(a[1]), 128))
		return structure{lower(c.Extract(wide, 127, 64), types.Uint64), lower(c.Extract(wide, 63, 0), types.Int64), i.absLoc()}
	})
	timeM := func(name string, f func(i *interpreter, fr *frame, st structure, a []value) value) {
		reg("(time.Time)."+name, func(i *interpreter, fr *frame, fn *ssa.Function, a []value) value {
			st, ok := i.isAbsTime(a[0])
			if !ok {
				return notHandled{}
			}
			return f(i, fr, st, a)
		})
	}
	timeM("UnixNano", func(i *interpreter, fr *frame, st structure, a []value) value { return st[1] })
	timeM("Unix", func(i *interpreter, fr *frame, st structure, a []value) value {
		if _, ok := st[1].(sym); ok {
			i.ps.note("time.Time.Unix() on a symbolic instant: seconds kept as an uninterpreted quotient")
			return lower(i.ps.ctx.App("unix_seconds", 64, i.term(st[1])), types.Int64)
		}
		q, _ := absInstant(st)
		return q.Int64()
	})
	timeM("Nanosecond", func(i *interpreter, fr *frame, st structure, a []value) value {
		if _, ok := st[1].(sym); ok {
			return lower(i.ps.ctx.Extract(i.ps.ctx.App("unix_nanos", 64, i.term(st[1])), 63, 0), types.Int)
		}
		_, r := absInstant(st)
		return int(r.Int64())
	})
	timeM("IsZero", func(i *interpreter, fr *frame, st structure, a []value) value { return false })
	cmp := func(op token.Token) func(i *interpreter, fr *frame, st structure, a []value) value {
		return func(i *interpreter, fr *frame, st structure, a []value) value {
			o, ok := i.isAbsTime(a[1])
			if !ok {
				// a concrete time.Time in Go's own representation (zero value, file-system default,
				// constants): convert it to the nanosecond count it stands for
				o, ok = i.wallToAbs(a[1])
			}
			if !ok {
				i.abort(outUnsupported, "comparison of an abstract instant with a wall-clock time")
			}
			c := i.ps.ctx
			hiA, hiB := i.term(st[0]), i.term(o[0])
			loA, loB := i.term(st[1]), i.term(o[1])
			eq := c.And(c.Eq(hiA, hiB), c.Eq(loA, loB))
			lt := c.Or(c.Cmp(smt.OpBvSlt, hiA, hiB), c.And(c.Eq(hiA, hiB), c.Cmp(smt.OpBvUlt, loA, loB)))
			switch op {
			case token.EQL:
				return lower(eq, types.Bool)
			case token.LSS:
				return lower(lt, types.Bool)
			}
			return lower(c.And(c.Not(eq), c.Not(lt)), types.Bool)
		}
	}
	timeM("Equal", cmp(token.EQL))
	timeM("Before", cmp(token.LSS))
	timeM("After", cmp(token.GTR))
	timeM("String", func(i *interpreter, fr *frame, st structure, a []value) value { return "<time>" })
	timeM("Format", func(i *interpreter, fr *frame, st structure, a []value) value { return "<time>" })
	timeM("UTC", func(i *interpreter, fr *frame, st structure, a []value) value { return st })
	timeM("Local", func(i *interpreter, fr *frame, st structure, a []value) value { return st })
}

// ------------------------------------------------------------------ SipHash-2-4 (assembly on amd64)
//
// Written against the specification over engine values, so it works for concrete and
// symbolic message bytes alike.

func init() {
	reg("github.com/dchest/siphash.Hash", func(i *interpreter, fr *frame, fn *ssa.Function, a []value) value {
		U := types.Typ[types.Uint64]
		add := func(x, y value) value { return i.binop(fr, token.ADD, U, U, x, y) }
		xor := func(x, y value) value { return i.binop(fr, token.XOR, U, U, x, y) }
		rotl := func(x value, k uint) value {
			l := i.binop(fr, token.SHL, U, types.Typ[types.Uint], x, k)
			r := i.binop(fr, token.SHR, U, types.Typ[types.Uint], x, 64-k)
			return i.binop(fr, token.OR, U, U, l, r)
		}
		k0, k1 := a[0], a[1]
		p := a[2].([]value)
		v0 := xor(k0, uint64(0x736f6d6570736575))
		v1 := xor(k1, uint64(0x646f72616e646f6d))
		v2 := xor(k0, uint64(0x6c7967656e657261))
		v3 := xor(k1, uint64(0x7465646279746573))
		round := func() {
			v0 = add(v0, v1)
			v1 = rotl(v1, 13)
			v1 = xor(v1, v0)
			v0 = rotl(v0, 32)
			v2 = add(v2, v3)
			v3 = rotl(v3, 16)
			v3 = xor(v3, v2)
			v0 = add(v0, v3)
			v3 = rotl(v3, 21)
			v3 = xor(v3, v0)
			v2 = add(v2, v1)
			v1 = rotl(v1, 17)
			v1 = xor(v1, v2)
			v2 = rotl(v2, 32)
		}
		word := func(bs []value, extra uint64) value {
			var m value = extra
			for k, b := range bs {
				w := i.conv(fr, U, types.Typ[types.Uint8], b)
				m = i.binop(fr, token.OR, U, U, m, i.binop(fr, token.SHL, U, types.Typ[types.Uint], w, uint(8*k)))
			}
			return m
		}
		n := len(p)
		for off := 0; off+8 <= n; off += 8 {
			m := word(p[off:off+8], 0)
			v3 = xor(v3, m)
			round()
			round()
			v0 = xor(v0, m)
		}
		m := word(p[n-n%8:], uint64(n)<<56)
		v3 = xor(v3, m)
		round()
		round()
		v0 = xor(v0, m)
		v2 = xor(v2, uint64(0xff))
		round()
		round()
		round()
		round()
		return xor(xor(v0, v1), xor(v2, v3))
	})
}
