package symx

import (
	"crypto/sha256"
	"encoding/hex"
	"fmt"
	"go/token"
	"go/types"
	"os"
	"path/filepath"
	"runtime"
	"sort"
	"strings"
	"sync"
	"time"

	"golang.org/x/tools/go/packages"
	"golang.org/x/tools/go/ssa"
	"golang.org/x/tools/go/ssa/ssautil"
	"verif/engine/smt"
)

type Config struct {
	Solver    string
	TimeoutMs int
	Workers   int
	Unwind    int
	ConcCap   int
	Preempt   int
	MaxPaths  int
	MaxWallS  float64 // stop exploring a harness after this many seconds (0 = no limit); the harness is then reported as truncated
	MaxSteps  int64
	Verbose   bool
	Tier      int // 0 quick, 1 thorough
	Seed      int64
	Concrete  map[string]string // replay: nondet name -> hex value (concrete mode)
	ReplayTrace string
	SolverLog string
	ConcreteMode bool
	NoVectors bool
}

type Engine struct {
	Cfg   Config
	Prog  *ssa.Program
	Pkgs  []*packages.Package
	Fset  *token.FileSet
	Repo  string
	LoadS float64

	mu     sync.Mutex
	cond   *sync.Cond
	work   [][]Dec
	active int
	npaths int
	res    *HarnessResult

	icache sync.Map // *ssa.Function -> intrinsicEntry
	srcHash sync.Map
	finfo   sync.Map
	tcache  sync.Map
	pendingVec int
}

type HarnessResult struct {
	Name       string
	Paths      map[string]int
	PathMsgs   map[string]int
	Violations []*Violation
	Covers     map[string]int
	Funcs      map[string]string // function -> file:line#hash
	Stubs      map[string]int
	Notes      map[string]bool
	Queries    int
	Unknowns   int
	SolverS    float64
	Steps      int64
	Forks      int
	Samples    []PathSample
	WallS      float64
	Truncated  bool
	MaxPreempt int
	Yields     int
	Vectors    []Vector
}

// Vector is a concrete input assignment that drives one explored path (for translator validation).
type Vector struct {
	Harness string            `json:"harness"`
	Model   map[string]string `json:"model"`
	Covers  []string          `json:"covers"`
	Sched   bool              `json:"schedule_dependent"`
	HashUF  bool              `json:"uses_uninterpreted_hash"` // the path applied the collision-free hash abstraction to symbolic bytes: a model value that must equal a digest cannot be realised with the real SHA
	Trace   string            `json:"trace"`
}

type PathSample struct {
	Trace   string `json:"decisions"`
	Outcome string `json:"outcome"`
	Steps   int64  `json:"ssa_instructions"`
	Nondet  []string `json:"nondet,omitempty"`
}

// Load type-checks /repo with the harness overlay and builds SSA for everything.
func Load(repo string, harnessDir string, cfg Config) (*Engine, error) {
	t0 := time.Now()
	overlay := map[string][]byte{}
	files, _ := filepath.Glob(filepath.Join(harnessDir, "*.go"))
	for _, f := range files {
		b, err := os.ReadFile(f)
		if err != nil {
			return nil, err
		}
		base := filepath.Base(f)
		if strings.HasSuffix(base, "_test.go") {
			continue
		}
		dst := filepath.Join(repo, "zz_verif_"+base)
		if strings.HasPrefix(base, "cmd_") {
			dst = filepath.Join(repo, "cmd", "desync", "zz_verif_"+base)
		}
		overlay[dst] = b
		if base == "verif_api.go" {
			// the same API for harnesses of package main (cmd/desync)
			overlay[filepath.Join(repo, "cmd", "desync", "zz_verif_verif_api.go")] = []byte(strings.Replace(string(b), "package desync", "package main", 1))
		}
	}
	pcfg := &packages.Config{
		Mode:    packages.LoadAllSyntax,
		Dir:     repo,
		Overlay: overlay,
		Env:     append(os.Environ(), "GOFLAGS=-mod=mod", "GOPROXY=off", "GOSUMDB=off", "GOTOOLCHAIN=local", "CGO_ENABLED=0"),
	}
	pkgs, err := packages.Load(pcfg, ".", "./cmd/desync")
	if err != nil {
		return nil, err
	}
	var errs []string
	packages.Visit(pkgs, nil, func(p *packages.Package) {
		for _, e := range p.Errors {
			errs = append(errs, e.Error())
		}
	})
	if len(errs) > 0 {
		return nil, fmt.Errorf("type errors (harness does not type-check against %s):\n%s", repo, strings.Join(errs, "\n"))
	}
	prog, _ := ssautil.AllPackages(pkgs, ssa.InstantiateGenerics)
	prog.Build()
	e := &Engine{Cfg: cfg, Prog: prog, Pkgs: pkgs, Fset: prog.Fset, Repo: repo}
	e.cond = sync.NewCond(&e.mu)
	e.LoadS = time.Since(t0).Seconds()
	return e, nil
}

// Harnesses returns the harness functions whose name starts with prefix, sorted.
func (e *Engine) Harnesses(prefix string) []*ssa.Function {
	var out []*ssa.Function
	for _, p := range e.Prog.AllPackages() {
		path := p.Pkg.Path()
		if path != "github.com/folbricht/desync" && path != "github.com/folbricht/desync/cmd/desync" {
			continue
		}
		for name, m := range p.Members {
			if f, ok := m.(*ssa.Function); ok && strings.HasPrefix(name, prefix) && strings.HasPrefix(name, "Verif") {
				if f.Signature.Params().Len() == 0 {
					out = append(out, f)
				}
			}
		}
	}
	sort.Slice(out, func(a, b int) bool { return out[a].Name() < out[b].Name() })
	return out
}

func (e *Engine) push(p []Dec) {
	e.mu.Lock()
	e.work = append(e.work, p)
	e.mu.Unlock()
	e.cond.Signal()
}

type worker struct {
	id  int
	eng *Engine
	sol *smt.Solver
}

// Run explores all paths of the harness.
func (e *Engine) Run(fn *ssa.Function) *HarnessResult {
	t0 := time.Now()
	res := &HarnessResult{Name: fn.Name(), Paths: map[string]int{}, PathMsgs: map[string]int{}, Covers: map[string]int{},
		Funcs: map[string]string{}, Stubs: map[string]int{}, Notes: map[string]bool{}}
	e.res = res
	e.work = [][]Dec{nil}
	e.active = 0
	e.npaths = 0
	e.pendingVec = 0
	if e.Cfg.ReplayTrace != "" {
		e.work = [][]Dec{parseTrace(e.Cfg.ReplayTrace)}
	}
	nw := e.Cfg.Workers
	if nw <= 0 {
		nw = runtime.NumCPU()
	}
	var wg sync.WaitGroup
	var solT time.Duration
	var solQ int
	for w := 0; w < nw; w++ {
		wg.Add(1)
		go func(id int) {
			defer wg.Done()
			sol, err := smt.NewSolver(e.Cfg.Solver, e.Cfg.TimeoutMs)
			if err != nil {
				panic(err)
			}
			if e.Cfg.SolverLog != "" && id == 0 {
				f, _ := os.Create(e.Cfg.SolverLog)
				sol.Log = f
				defer f.Close()
			}
			defer sol.Close()
			wk := &worker{id: id, eng: e, sol: sol}
			for {
				e.mu.Lock()
				for len(e.work) == 0 && e.active > 0 {
					e.cond.Wait()
				}
				if len(e.work) == 0 {
					e.mu.Unlock()
					e.cond.Broadcast()
					break
				}
				if res.Paths["inconclusive"] >= 64 {
					// the solver keeps timing out: stop exploring, the harness is reported as not exhaustive
					res.Truncated = true
					res.Notes["exploration stopped after 64 inconclusive paths (solver time-outs)"] = true
					e.work = nil
					e.mu.Unlock()
					e.cond.Broadcast()
					break
				}
				if e.Cfg.MaxWallS > 0 && time.Since(t0).Seconds() > e.Cfg.MaxWallS {
					res.Truncated = true
					res.Notes[fmt.Sprintf("exploration stopped after the per-harness time budget of %.0f s (not exhaustive)", e.Cfg.MaxWallS)] = true
					e.work = nil
					e.mu.Unlock()
					e.cond.Broadcast()
					break
				}
				if e.Cfg.MaxPaths > 0 && e.npaths >= e.Cfg.MaxPaths {
					res.Truncated = true
					e.work = nil
					e.mu.Unlock()
					e.cond.Broadcast()
					break
				}
				p := e.work[len(e.work)-1]
				e.work = e.work[:len(e.work)-1]
				e.active++
				e.npaths++
				e.mu.Unlock()

				ps := wk.runPath(fn, p)

				e.mu.Lock()
				e.active--
				e.merge(res, ps)
				e.mu.Unlock()
				e.cond.Broadcast()
			}
			e.mu.Lock()
			solT += sol.Time
			solQ += sol.Queries
			e.mu.Unlock()
		}(w)
	}
	wg.Wait()
	res.SolverS = solT.Seconds()
	res.Queries = solQ
	res.WallS = time.Since(t0).Seconds()
	return res
}

func parseTrace(s string) []Dec {
	var out []Dec
	for _, f := range strings.Fields(s) {
		var v uint64
		fmt.Sscanf(f[1:], "%d", &v)
		out = append(out, Dec{K: f[0], V: v})
	}
	return out
}

// wantVector: keep a few vectors per harness, preferring distinct cover sets.
func (e *Engine) wantVector(ps *pathState) bool {
	if e.Cfg.ConcreteMode || e.Cfg.NoVectors {
		return false
	}
	e.mu.Lock()
	defer e.mu.Unlock()
	if len(e.res.Vectors)+e.pendingVec >= 4 {
		return false
	}
	key := strings.Join(sortedKeys(ps.covers), ",")
	for _, v := range e.res.Vectors {
		if strings.Join(v.Covers, ",") == key && len(e.res.Vectors) >= 2 {
			return false
		}
	}
	e.pendingVec++
	ps.wantedVec = true
	return true
}

func (e *Engine) merge(res *HarnessResult, ps *pathState) {
	if ps.vector != nil {
		res.Vectors = append(res.Vectors, *ps.vector)
	}
	if ps.wantedVec {
		e.pendingVec--
	}
	res.Paths[ps.out.String()]++
	if ps.out != outOK && ps.out != outInfeasible {
		m := ps.out.String() + ": " + ps.msg
		if len(m) > 300 {
			m = m[:300]
		}
		res.PathMsgs[m]++
	}
	if ps.inconclusive && ps.out == outOK {
		res.Paths["ok-with-inconclusive-obligation"]++
	}
	seen := map[string]*Violation{}
	for _, v := range res.Violations {
		seen[v.Key()] = v
	}
	for _, v := range ps.viols {
		if first := seen[v.Key()]; first == nil {
			seen[v.Key()] = v
			res.Violations = append(res.Violations, v)
		} else if len(first.Alts) < 6 && v.Trace != first.Trace {
			first.Alts = append(first.Alts, v)
		}
	}
	for k := range ps.covers {
		res.Covers[k]++
	}
	for k, n := range ps.stubs {
		res.Stubs[k] += n
	}
	for k := range ps.notes {
		res.Notes[k] = true
	}
	for f := range ps.funcs {
		name := f.String()
		if _, ok := res.Funcs[name]; !ok {
			res.Funcs[name] = e.funcSig(f)
		}
	}
	res.Unknowns += ps.unknowns
	res.Steps += ps.steps
	res.Forks += ps.forks
	if ps.sched != nil {
		if ps.sched.preemptions > res.MaxPreempt {
			res.MaxPreempt = ps.sched.preemptions
		}
		res.Yields += ps.sched.yields
	}
	if len(res.Samples) < 6 && ps.out != outInfeasible {
		s := PathSample{Trace: decString(ps.trace), Outcome: ps.out.String(), Steps: ps.steps}
		for _, nd := range ps.nondets {
			s.Nondet = append(s.Nondet, nd.name+":"+nd.kind)
		}
		if len(s.Trace) > 400 {
			s.Trace = s.Trace[:400] + "…"
		}
		if len(s.Nondet) > 24 {
			s.Nondet = append(s.Nondet[:24], "…")
		}
		res.Samples = append(res.Samples, s)
	}
}

// funcSig returns file:line and a hash of the current source text of f.
func (e *Engine) funcSig(f *ssa.Function) string {
	if v, ok := e.srcHash.Load(f); ok {
		return v.(string)
	}
	sig := ""
	if syn := f.Syntax(); syn != nil {
		p0, p1 := e.Fset.Position(syn.Pos()), e.Fset.Position(syn.End())
		if b, err := os.ReadFile(p0.Filename); err == nil && p1.Offset <= len(b) && p0.Offset < p1.Offset {
			h := sha256.Sum256(b[p0.Offset:p1.Offset])
			rel, _ := filepath.Rel(e.Repo, p0.Filename)
			sig = fmt.Sprintf("%s:%d#%s", rel, p0.Line, hex.EncodeToString(h[:6]))
		} else {
			sig = fmt.Sprintf("%s:%d", p0.Filename, p0.Line)
		}
	}
	e.srcHash.Store(f, sig)
	return sig
}

func (wk *worker) runPath(fn *ssa.Function, prefix []Dec) (ps *pathState) {
	e := wk.eng
	i := &interpreter{prog: e.Prog, globals: map[*ssa.Global]*value{}, eng: e, sizes: &types.StdSizes{WordSize: 8, MaxAlign: 8}, inited: map[*ssa.Package]bool{}}
	ps = &pathState{eng: e, wk: wk, ctx: smt.NewCtx(), sol: wk.sol, prefix: prefix, names: map[string]int{}, covers: map[string]bool{},
		stubs: map[string]int{}, funcs: map[*ssa.Function]bool{}, harness: fn.Name(), unwind: e.Cfg.Unwind, concCap: e.Cfg.ConcCap,
		preempt: e.Cfg.Preempt, inputLen: -1, allocSlack: 64 << 10}
	i.ps = ps
	wk.sol.Begin(ps.ctx)
	if rp := e.Prog.ImportedPackage("runtime"); rp != nil {
		i.runtimeErrorString = rp.Type("errorString").Object().Type()
	}
	ps.sched = newSched(i)
	ps.fs = newModelFS()
	g0 := ps.sched.gs[0]
	top := &frame{i: i, g: g0, fn: fn}
	g0.top = top
	func() {
		defer func() {
			r := recover()
			if _, isCrash := r.(crashPanic); isCrash {
				r = nil
			}
			if r != nil {
				if _, ok := r.(abortPanic); !ok {
					func() {
						defer func() {
							if r2 := recover(); r2 != nil {
								if _, ok := r2.(abortPanic); !ok && ps.out == outRunning {
									ps.out = outEngineError
									ps.msg = fmt.Sprint(r2)
								}
							}
						}()
						i.topLevelPanic(top, r)
					}()
				}
			}
			ps.sched.killAll()
		}()
		i.initPackage(top, fn.Pkg)
		ps.initDone = true
		callIn(i, top, g0, token.NoPos, fn, nil)
	}()
	if ps.crashed && ps.onCrash != nil && ps.out == outRunning {
		// post-mortem after an injected crash: nothing of the interrupted run continues
		ps.fs.crashAt = -1
		ps.sched = newSched(i)
		g0 = ps.sched.gs[0]
		top = &frame{i: i, g: g0, fn: fn}
		g0.top = top
		ps.panicActive = false
		func() {
			defer func() {
				if r := recover(); r != nil {
					if _, ok := r.(abortPanic); !ok {
						func() {
							defer func() { recover() }()
							i.topLevelPanic(top, r)
						}()
					}
				}
				ps.sched.killAll()
			}()
			callIn(i, top, g0, token.NoPos, ps.onCrash, nil)
		}()
	}
	if ps.out == outRunning {
		ps.out = outOK
	}
	if ps.out == outOK && !ps.crashed && len(ps.viols) == 0 && e.wantVector(ps) {
		// a model of the path condition = concrete inputs that drive exactly this path
		if wk.sol.Check() == smt.Sat {
			m, _, _ := i.model()
			ok := true
			for _, v := range m {
				if v == "?" {
					ok = false
				}
			}
			if ok {
				ps.vector = &Vector{Harness: fn.Name(), Model: m, Covers: sortedKeys(ps.covers), Trace: decString(ps.trace),
					Sched: strings.Contains(" "+decString(ps.trace), " c"), HashUF: ps.hashSym}
			}
		}
	}
	if ps.out == outEngineError || (ps.out == outPanic && ps.hostStack != "" && e.Cfg.Verbose) {
		fmt.Fprintf(os.Stderr, "[%s] %s: %s\ntrace: %s\n%s\n", fn.Name(), ps.out, ps.msg, decString(ps.trace), ps.hostStack)
	}
	return ps
}

// initPackage runs the package initialiser (transitively, for interpreted packages).
func (i *interpreter) initPackage(fr *frame, pkg *ssa.Package) {
	// packages whose initialisers are needed although an importer in between is not initialised
	for _, path := range []string{"vendor/golang.org/x/net/http/httpguts", "net/url", "net/textproto", "net/http/internal/ascii"} {
		if p := i.prog.ImportedPackage(path); p != nil {
			if init := p.Func("init"); init != nil {
				callIn(i, fr, fr.g, token.NoPos, init, nil)
			}
		}
	}
	if init := pkg.Func("init"); init != nil {
		callIn(i, fr, fr.g, token.NoPos, init, nil)
	}
}

// ReplayConcrete re-executes a counterexample with every symbolic input bound
// to its model value; it reports whether the same violation shows up again.
func (e *Engine) ReplayConcrete(harness string, v *Violation) (bool, string) {
	var fn *ssa.Function
	for _, h := range e.Harnesses(harness) {
		if h.Name() == harness {
			fn = h
		}
	}
	if fn == nil {
		return false, "harness not found"
	}
	saved := e.Cfg
	defer func() { e.Cfg = saved }()
	e.Cfg.Concrete = v.Model
	e.Cfg.Workers = 1
	// only scheduler-like choices survive in concrete mode
	var tr []string
	for _, d := range parseTrace(v.Trace) {
		if d.K == 'c' {
			tr = append(tr, fmt.Sprintf("c%d", d.V))
		}
	}
	e.Cfg.ReplayTrace = strings.Join(tr, " ")
	e.Cfg.ConcreteMode = true
	r := e.Run(fn)
	for _, w := range r.Violations {
		if w.Kind == v.Kind && (w.Label == v.Label || w.Kind != "assert") {
			return true, ""
		}
	}
	return false, fmt.Sprintf("paths=%v violations=%d", r.Paths, len(r.Violations))
}
