package symx

// Goroutines of the target program run as host goroutines that only execute
// while holding the single baton.  Yield points are the synchronisation
// operations; the choice of who runs next at a yield point is an entry of the
// decision vector, explored exhaustively up to the preemption bound.

import (
	"fmt"
	"go/types"
	"sync"
)

type goroutine struct {
	id      int
	resume  chan struct{}
	blocked func() bool // nil: runnable
	what    string
	done    bool
	top     *frame
}

type sched struct {
	i           *interpreter
	gs          []*goroutine
	cur         *goroutine
	preemptions int
	dead        bool
	wg          sync.WaitGroup
	yields      int
}

func newSched(i *interpreter) *sched {
	s := &sched{i: i}
	g := &goroutine{id: 0, resume: make(chan struct{}, 1)}
	s.gs = []*goroutine{g}
	s.cur = g
	return s
}

func (s *sched) runnable(except *goroutine) []*goroutine {
	var r []*goroutine
	for _, g := range s.gs {
		if g.done || g == except {
			continue
		}
		if g.blocked == nil || g.blocked() {
			r = append(r, g)
		}
	}
	return r
}

// switchTo hands the baton from g (the running goroutine) to next and waits to be resumed.
func (s *sched) switchTo(g, next *goroutine) {
	if next == g {
		return
	}
	s.cur = next
	next.resume <- struct{}{}
	<-g.resume
	if s.dead {
		panic(abortPanic{})
	}
}

// yield is called by the running goroutine at a synchronisation point.
func (s *sched) yield(fr *frame) {
	if len(s.gs) == 1 || s.dead {
		return
	}
	g := fr.g
	s.yields++
	if s.preemptions >= s.i.ps.preempt {
		return
	}
	others := s.runnable(g)
	if len(others) == 0 {
		return
	}
	k := s.i.choose(len(others)+1, "sched")
	if k == 0 {
		return
	}
	s.preemptions++
	s.switchTo(g, others[k-1])
}

// block parks the running goroutine until pred holds.
func (s *sched) block(fr *frame, pred func() bool, what string) {
	g := fr.g
	for !pred() {
		g.blocked = pred
		g.what = what
		others := s.runnable(g)
		if len(others) == 0 {
			g.blocked = nil
			s.deadlock(fr)
		}
		k := 0
		if len(others) > 1 && !s.i.ps.schedFixed && !s.i.ps.schedBlockFixed {
			k = s.i.choose(len(others), "sched-block")
		}
		s.switchTo(g, others[k])
		g.blocked = nil
	}
}

func (s *sched) deadlock(fr *frame) {
	i := s.i
	var desc string
	for _, g := range s.gs {
		if !g.done {
			desc += fmt.Sprintf("g%d:%s ", g.id, g.what)
		}
	}
	if !i.ps.expectDeadlock {
		i.violation(fr, "deadlock", "all goroutines blocked: "+desc, false)
	}
	i.abort(outDeadlock, "deadlock: %s", desc)
}

// spawn starts a new goroutine running f; the creator keeps the baton.
func (s *sched) spawn(fr *frame, run func(g *goroutine)) {
	g := &goroutine{id: len(s.gs), resume: make(chan struct{}, 1)}
	s.gs = append(s.gs, g)
	s.wg.Add(1)
	go func() {
		defer s.wg.Done()
		<-g.resume
		if s.dead {
			return
		}
		defer func() {
			r := recover()
			g.done = true
			if r != nil {
				_, isCrash := r.(crashPanic)
				if _, ok := r.(abortPanic); !ok && !isCrash {
					// a target panic that reached the top of a goroutine crashes the program
					s.i.topLevelPanic(g.top, r)
				}
				// end the path: wake the main goroutine so it can unwind
				if !s.dead {
					s.dead = true
					s.gs[0].resume <- struct{}{}
				}
				return
			}
			if s.dead {
				return
			}
			s.exit(g)
		}()
		run(g)
	}()
	s.yield(fr)
}

// exit is called when a non-main goroutine finished: pass the baton on.
func (s *sched) exit(g *goroutine) {
	others := s.runnable(g)
	if len(others) == 0 {
		// everybody else is blocked: deadlock; report from here
		func() {
			defer func() {
				recover()
				if !s.dead {
					s.dead = true
					s.gs[0].resume <- struct{}{}
				}
			}()
			s.deadlock(g.top)
		}()
		return
	}
	k := 0
	if len(others) > 1 && !s.i.ps.schedFixed && !s.i.ps.schedBlockFixed {
		defer func() {
			if r := recover(); r != nil {
				if !s.dead {
					s.dead = true
					s.gs[0].resume <- struct{}{}
				}
			}
		}()
		k = s.i.choose(len(others), "sched-exit")
	}
	s.cur = others[k]
	others[k].resume <- struct{}{}
}

// killAll ends every remaining goroutine (called by the main goroutine when the path is over).
func (s *sched) killAll() {
	s.dead = true
	for _, g := range s.gs[1:] {
		if !g.done {
			select {
			case g.resume <- struct{}{}:
			default:
			}
		}
	}
	s.wg.Wait()
}

// ---------------------------------------------------------------- channels

type waiter struct {
	g     *goroutine
	ch    *channel
	send  bool
	v     value
	ok    bool
	done  bool
	close bool // woken by close
	grp   *selGroup
	idx   int
}

type selGroup struct {
	ws    []*waiter
	fired *waiter
}

type channel struct {
	id     int
	cap    int
	buf    []value
	closed bool
	recvq  []*waiter
	sendq  []*waiter
	elem   types.Type
}

func (ch *channel) deq(q *[]*waiter) *waiter {
	w := (*q)[0]
	*q = (*q)[1:]
	return w
}

func removeWaiter(q *[]*waiter, w *waiter) {
	for k, x := range *q {
		if x == w {
			*q = append((*q)[:k:k], (*q)[k+1:]...)
			return
		}
	}
}

func (w *waiter) fire() {
	w.done = true
	if w.grp != nil {
		w.grp.fired = w
		for _, o := range w.grp.ws {
			if o != w {
				if o.send {
					removeWaiter(&o.ch.sendq, o)
				} else {
					removeWaiter(&o.ch.recvq, o)
				}
			}
		}
	}
}

func (i *interpreter) makeChan(elem types.Type, cap int) *channel {
	i.ps.nchan++
	return &channel{id: i.ps.nchan, cap: cap, elem: elem}
}

// trySend performs a send that can complete now; reports whether it did.
func (ch *channel) trySend(v value) bool {
	if ch.closed {
		panic(runtimeErr("send on closed channel"))
	}
	if len(ch.recvq) > 0 {
		w := ch.deq(&ch.recvq)
		w.v, w.ok = v, true
		w.fire()
		return true
	}
	if len(ch.buf) < ch.cap {
		ch.buf = append(ch.buf, v)
		return true
	}
	return false
}

func (ch *channel) sendReady() bool {
	return ch.closed || len(ch.recvq) > 0 || len(ch.buf) < ch.cap
}

func (ch *channel) recvReady() bool {
	return len(ch.buf) > 0 || len(ch.sendq) > 0 || ch.closed
}

// tryRecv performs a receive that can complete now.
func (ch *channel) tryRecv() (v value, ok bool, did bool) {
	if len(ch.buf) > 0 {
		v = ch.buf[0]
		ch.buf = ch.buf[1:]
		if len(ch.sendq) > 0 {
			w := ch.deq(&ch.sendq)
			ch.buf = append(ch.buf, w.v)
			w.fire()
		}
		return v, true, true
	}
	if len(ch.sendq) > 0 {
		w := ch.deq(&ch.sendq)
		w.fire()
		return w.v, true, true
	}
	if ch.closed {
		return zero(ch.elem), false, true
	}
	return nil, false, false
}

func (i *interpreter) chanSend(fr *frame, ch *channel, v value) {
	s := i.ps.sched
	s.yield(fr)
	if ch == nil {
		s.block(fr, func() bool { return false }, "send on nil channel")
	}
	if ch.trySend(v) {
		s.yield(fr) // a receiver woken by this send may run first
		return
	}
	w := &waiter{g: fr.g, ch: ch, send: true, v: v}
	ch.sendq = append(ch.sendq, w)
	s.block(fr, func() bool { return w.done }, fmt.Sprintf("chan send #%d", ch.id))
	if w.close {
		panic(runtimeErr("send on closed channel"))
	}
}

func (i *interpreter) chanRecv(fr *frame, ch *channel) (value, bool) {
	s := i.ps.sched
	s.yield(fr)
	if ch == nil {
		s.block(fr, func() bool { return false }, "receive from nil channel")
	}
	if v, ok, did := ch.tryRecv(); did {
		return v, ok
	}
	w := &waiter{g: fr.g, ch: ch}
	ch.recvq = append(ch.recvq, w)
	s.block(fr, func() bool { return w.done }, fmt.Sprintf("chan receive #%d", ch.id))
	return w.v, w.ok
}

func (i *interpreter) chanClose(fr *frame, ch *channel) {
	if ch == nil {
		panic(runtimeErr("close of nil channel"))
	}
	if ch.closed {
		panic(runtimeErr("close of closed channel"))
	}
	i.ps.sched.yield(fr)
	if ch.closed {
		panic(runtimeErr("close of closed channel"))
	}
	ch.closed = true
	for len(ch.recvq) > 0 {
		w := ch.deq(&ch.recvq)
		w.v, w.ok, w.close = zero(ch.elem), false, true
		w.fire()
	}
	for len(ch.sendq) > 0 {
		w := ch.deq(&ch.sendq)
		w.close = true
		w.fire()
	}
	// the goroutines woken by the close may run before the closer continues
	i.ps.sched.yield(fr)
}

type selCase struct {
	ch   *channel
	send bool
	v    value
}

// chanSelect returns the chosen case index (-1 default), and for receives the value/ok.
func (i *interpreter) chanSelect(fr *frame, cases []selCase, blocking bool) (int, value, bool) {
	s := i.ps.sched
	s.yield(fr)
	var ready []int
	for k, c := range cases {
		if c.ch == nil {
			continue
		}
		if (c.send && c.ch.sendReady()) || (!c.send && c.ch.recvReady()) {
			ready = append(ready, k)
		}
	}
	if len(ready) > 0 {
		k := ready[i.choose(len(ready), "select")]
		c := cases[k]
		if c.send {
			if !c.ch.trySend(c.v) {
				panic("engine: select send not ready")
			}
			return k, nil, false
		}
		v, ok, _ := c.ch.tryRecv()
		return k, v, ok
	}
	if !blocking {
		return -1, nil, false
	}
	grp := &selGroup{}
	for k, c := range cases {
		if c.ch == nil {
			continue
		}
		w := &waiter{g: fr.g, ch: c.ch, send: c.send, v: c.v, grp: grp, idx: k}
		grp.ws = append(grp.ws, w)
		if c.send {
			c.ch.sendq = append(c.ch.sendq, w)
		} else {
			c.ch.recvq = append(c.ch.recvq, w)
		}
	}
	s.block(fr, func() bool { return grp.fired != nil }, "select")
	w := grp.fired
	if w.send {
		if w.close {
			panic(runtimeErr("send on closed channel"))
		}
		return w.idx, nil, false
	}
	return w.idx, w.v, w.ok
}

// ---------------------------------------------------------------- locks

type mutexState struct {
	locked  bool
	readers int
	wwait   int
	owner   int
}

func (i *interpreter) mutex(p *value) *mutexState {
	ps := i.ps
	if ps.mutexes == nil {
		ps.mutexes = map[*value]*mutexState{}
	}
	m := ps.mutexes[p]
	if m == nil {
		m = &mutexState{}
		ps.mutexes[p] = m
	}
	return m
}

func (i *interpreter) mutexLock(fr *frame, p *value) {
	s := i.ps.sched
	s.yield(fr)
	m := i.mutex(p)
	m.wwait++
	s.block(fr, func() bool { return !m.locked && m.readers == 0 }, "Mutex.Lock")
	m.wwait--
	m.locked = true
	m.owner = fr.g.id
}

func (i *interpreter) mutexTryLock(fr *frame, p *value) bool {
	m := i.mutex(p)
	if m.locked || m.readers > 0 {
		return false
	}
	m.locked = true
	return true
}

func (i *interpreter) mutexUnlock(fr *frame, p *value) {
	m := i.mutex(p)
	if !m.locked {
		i.violation(fr, "monitor", "unlock of unlocked mutex", false)
		i.abort(outPanic, "sync: unlock of unlocked mutex")
	}
	m.locked = false
	i.ps.sched.yield(fr)
}

func (i *interpreter) mutexRLock(fr *frame, p *value) {
	s := i.ps.sched
	s.yield(fr)
	m := i.mutex(p)
	// Go's RWMutex: a blocked writer blocks new readers
	s.block(fr, func() bool { return !m.locked && m.wwait == 0 }, "RWMutex.RLock")
	m.readers++
}

func (i *interpreter) mutexRUnlock(fr *frame, p *value) {
	m := i.mutex(p)
	if m.readers <= 0 {
		i.violation(fr, "monitor", "RUnlock of unlocked RWMutex", false)
		i.abort(outPanic, "sync: RUnlock of unlocked RWMutex")
	}
	m.readers--
	i.ps.sched.yield(fr)
}

type wgState struct{ n int64 }

func (i *interpreter) waitgroup(p *value) *wgState {
	ps := i.ps
	if ps.wgs == nil {
		ps.wgs = map[*value]*wgState{}
	}
	w := ps.wgs[p]
	if w == nil {
		w = &wgState{}
		ps.wgs[p] = w
	}
	return w
}
