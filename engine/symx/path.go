package symx

import (
	"fmt"
	"go/token"
	"sort"
	"strings"

	"golang.org/x/tools/go/ssa"
	"verif/engine/smt"
)

// Dec is one entry of a decision vector.
type Dec struct {
	K byte   // b: branch, p: run-time check (1=ok), e: concretise equal, n: concretise not-equal, c: choice
	V uint64
}

func decString(ds []Dec) string {
	var sb strings.Builder
	for _, d := range ds {
		fmt.Fprintf(&sb, "%c%d ", d.K, d.V)
	}
	return strings.TrimSpace(sb.String())
}

type Outcome int

const (
	outRunning Outcome = iota
	outOK
	outInfeasible    // vAssume false / pc unsat: not a path
	outUnwind        // unwinding / step budget exceeded
	outBound         // concretisation cap exceeded
	outUnsupported   // call or construct the engine cannot encode
	outInconclusive  // solver unknown on an obligation
	outPanic         // Go panic reached the top of the harness
	outDeadlock      // all goroutines blocked
	outEngineError   // internal error of the engine
)

var outNames = [...]string{"running", "ok", "infeasible", "unwind-exceeded", "bound-exceeded", "unsupported", "inconclusive", "panic", "deadlock", "engine-error"}

func (o Outcome) String() string { return outNames[o] }

type abortPanic struct{}

// Violation is a counterexample found on a path.
type Violation struct {
	Harness string            `json:"harness"`
	Kind    string            `json:"kind"` // assert | panic | deadlock | alloc | monitor
	Label   string            `json:"label"`
	Pos     string            `json:"pos"`
	Model   map[string]string `json:"model"`  // nondet name -> hex value
	Order   []string          `json:"order"`  // nondet names in creation order
	Kinds   map[string]string `json:"kinds"`  // nondet name -> kind (u8,u64,bool,bytes:N,choose:N,...)
	Trace   string            `json:"trace"`  // decision vector
	Stack   []string          `json:"stack,omitempty"`
	// Alts are further counterexamples for the same assertion (other paths): if this one does
	// not replay natively because of a modelling difference, another one may.
	Alts []*Violation `json:"-"`
}

func (v *Violation) Key() string {
	l := v.Label
	if v.Kind != "assert" {
		// panic/alloc messages carry concrete numbers: one finding per message shape
		var sb strings.Builder
		for _, r := range l {
			if r >= '0' && r <= '9' {
				if sb.Len() > 0 && strings.HasSuffix(sb.String(), "#") {
					continue
				}
				sb.WriteByte('#')
				continue
			}
			sb.WriteRune(r)
		}
		l = sb.String() + "@" + v.Pos
	}
	return v.Harness + "|" + v.Kind + "|" + l
}

type nondet struct {
	name string
	kind string
	t    []*smt.Term // one per byte for bytes, else 1
	conc []uint64    // concrete values (choose)
}

// pathState is everything that belongs to one explored path.
type pathState struct {
	zverdicts map[string]int // zstd model: verdict per foreign frame (a decoder is deterministic)
	env      map[string]value // process environment as set by the harness
	syncMaps map[*value]*hashmap // sync.Map contents by receiver
	pools map[*value][]value // sync.Pool contents (pools of the code under test only)
	eng    *Engine
	wk     *worker
	ctx    *smt.Ctx
	sol    *smt.Solver
	prefix []Dec
	pos    int
	trace  []Dec
	out    Outcome
	msg    string
	steps  int64
	nondets []*nondet
	names  map[string]int
	viols  []*Violation
	covers map[string]bool
	stubs  map[string]int
	funcs  map[*ssa.Function]bool
	unknowns int
	queries  int
	forks    int
	harness  string
	unwind   int
	concCap  int
	preempt  int
	expectPanic bool
	inputLen int // reference input length for the allocation monitor (-1: monitor off)
	allocMax int64
	sched  *sched
	hashApps []hashApp
	fs     *modelFS
	clock  int64
	notes  map[string]bool
	symSteps int64
	inconclusive bool
	hostStack  string
	panicPos   string
	panicStack []string
	panicActive bool
	nchan      int
	mutexes    map[*value]*mutexState
	wgs        map[*value]*wgState
	expectDeadlock bool
	mapOrders  bool
	allocSlack int64
	initDone   bool
	hashSym    bool
	hashConc   []hashConc
	sleeps     int
	crashed    bool
	recordIOOn bool
	ioLog      []value
	fsNoYield  bool
	ufTables   map[*value]string
	absLoc     *value
	vector     *Vector
	wantedVec  bool
	schedFixed bool
	schedBlockFixed bool
	zframes    [][]value
	onCrash    value
}

func (i *interpreter) abort(o Outcome, format string, args ...interface{}) {
	ps := i.ps
	if ps.out == outRunning {
		ps.out = o
		ps.msg = fmt.Sprintf(format, args...)
	}
	panic(abortPanic{})
}

func (ps *pathState) record(d Dec) { ps.trace = append(ps.trace, d) }

func (ps *pathState) replaying() bool { return ps.pos < len(ps.prefix) }

func (ps *pathState) nextDec(kinds string) Dec {
	d := ps.prefix[ps.pos]
	ps.pos++
	if !strings.ContainsRune(kinds, rune(d.K)) {
		panic(fmt.Sprintf("engine: non-deterministic replay: expected one of %q, got %c%d at %d (trace %s)", kinds, d.K, d.V, ps.pos-1, decString(ps.prefix)))
	}
	ps.record(d)
	return d
}

func (ps *pathState) fork(alt Dec) {
	p := make([]Dec, len(ps.trace)+1)
	copy(p, ps.trace)
	p[len(ps.trace)] = alt
	ps.forks++
	ps.eng.push(p)
}

func (ps *pathState) forkN(alt ...Dec) {
	p := make([]Dec, len(ps.trace)+len(alt))
	copy(p, ps.trace)
	copy(p[len(ps.trace):], alt)
	ps.forks++
	ps.eng.push(p)
}

func (ps *pathState) check(t *smt.Term) smt.Result {
	ps.queries++
	r := ps.sol.CheckWith(t)
	if r == smt.Unknown {
		ps.unknowns++
		// a feasibility question the solver cannot answer in time: the path ends as inconclusive
		// (reported, never success) instead of dragging the time-out through every later query
		if ps.out == outRunning {
			ps.out = outInconclusive
			ps.msg = "solver unknown on a feasibility query (time-out or hard arithmetic)"
		}
		panic(abortPanic{})
	}
	return r
}

func (i *interpreter) posOf(fr *frame) string {
	for f := fr; f != nil; f = f.caller {
		if f.cur != nil && f.cur.Pos() != token.NoPos {
			return i.prog.Fset.Position(f.cur.Pos()).String()
		}
	}
	return ""
}

func (i *interpreter) stackOf(fr *frame) []string {
	var st []string
	for f := fr; f != nil && len(st) < 12; f = f.caller {
		s := f.fn.String()
		if f.cur != nil && f.cur.Pos() != token.NoPos {
			p := i.prog.Fset.Position(f.cur.Pos())
			s += fmt.Sprintf(" %s:%d", p.Filename, p.Line)
		}
		st = append(st, s)
	}
	return st
}

// branchK decides a symbolic condition; kind is 'b' or 'p'.
func (i *interpreter) branchK(fr *frame, cond *smt.Term, kind byte, site string) bool {
	ps := i.ps
	c := ps.ctx
	if cond.IsConst() {
		return cond.V != 0
	}
	if ps.replaying() {
		d := ps.nextDec(string(kind))
		if d.V == 1 {
			ps.sol.Assert(cond)
		} else {
			ps.sol.Assert(c.Not(cond))
		}
		return d.V == 1
	}
	if fr != nil && fr.cur != nil {
		if fr.symVisits == nil {
			fr.symVisits = map[ssa.Instruction]int{}
		}
		fr.symVisits[fr.cur]++
		if fr.symVisits[fr.cur] > ps.unwind {
			i.abort(outUnwind, "more than %d symbolic decisions at %s", ps.unwind, i.posOf(fr))
		}
	}
	rt := ps.check(cond)
	take := true
	switch rt {
	case smt.Unsat:
		take = false
	default:
		rf := ps.check(c.Not(cond))
		if rf != smt.Unsat {
			ps.fork(Dec{kind, 0})
		}
	}
	if take {
		ps.record(Dec{kind, 1})
		ps.sol.Assert(cond)
	} else {
		ps.record(Dec{kind, 0})
		ps.sol.Assert(c.Not(cond))
	}
	return take
}

func (i *interpreter) branch(fr *frame, cond *smt.Term, site string) bool {
	return i.branchK(fr, cond, 'b', site)
}

// branchCheck decides a run-time check; true means the check passes.
func (i *interpreter) branchCheck(fr *frame, ok *smt.Term, what string) bool {
	return i.branchK(fr, ok, 'p', what)
}

// condBool turns a bool-typed value into a Go bool, forking when symbolic.
func (i *interpreter) condBool(fr *frame, v value) bool {
	switch v := v.(type) {
	case bool:
		return v
	case sym:
		return i.branch(fr, v.t, "cond")
	}
	panic(fmt.Sprintf("condBool: %T", v))
}

// concretise returns a concrete value for t, forking over its feasible values.
// The feasible values are enumerated in batches on the discovering path so
// that the sibling paths can run in parallel.
func (i *interpreter) concretise(fr *frame, t *smt.Term, why string) uint64 {
	ps := i.ps
	c := ps.ctx
	if t.IsConst() {
		return t.V
	}
	n := 0
	for {
		if ps.replaying() {
			d := ps.nextDec("en")
			k := c.Const(d.V, t.W)
			if d.K == 'e' {
				ps.sol.Assert(c.Eq(t, k))
				return d.V
			}
			ps.sol.Assert(c.Not(c.Eq(t, k)))
			n++
			continue
		}
		// enumerate up to batch feasible values
		const batch = 64
		var vals []uint64
		exhausted := false
		ps.sol.Push()
		for len(vals) < batch {
			ps.queries++
			r := ps.sol.Check()
			if r == smt.Unsat {
				exhausted = true
				break
			}
			if r == smt.Unknown {
				ps.unknowns++
				ps.sol.Pop()
				i.abort(outInconclusive, "solver unknown at concretisation (%s) at %s", why, i.posOf(fr))
			}
			mv, err := ps.sol.Values([]*smt.Term{t})
			if err != nil {
				ps.sol.Pop()
				i.abort(outInconclusive, "no model at concretisation: %v", err)
			}
			v, _ := smt.ParseVal(mv[t])
			vals = append(vals, v)
			ps.sol.Assert(c.Not(c.Eq(t, c.Const(v, t.W))))
		}
		ps.sol.Pop()
		if len(vals) == 0 {
			i.abort(outInfeasible, "path condition unsatisfiable at concretisation (%s)", why)
		}
		if n+len(vals) > ps.concCap || (!exhausted && n+len(vals) >= ps.concCap) {
			i.abort(outBound, "more than %d feasible values for %s at %s", ps.concCap, why, i.posOf(fr))
		}
		for _, v := range vals[1:] {
			ps.forkN(Dec{'e', v})
		}
		if !exhausted {
			ds := make([]Dec, len(vals))
			for k, v := range vals {
				ds[k] = Dec{'n', v}
			}
			ps.forkN(ds...)
		}
		ps.record(Dec{'e', vals[0]})
		ps.sol.Assert(c.Eq(t, c.Const(vals[0], t.W)))
		return vals[0]
	}
}

// concretiseRange is concretise for a term known to lie in [lo, hi]: every
// candidate becomes a sibling path without a feasibility query on the
// discovering path; a candidate path checks its own feasibility first.
func (i *interpreter) concretiseRange(fr *frame, t *smt.Term, lo, hi uint64, why string) uint64 {
	ps := i.ps
	c := ps.ctx
	if t.IsConst() {
		return t.V
	}
	if ps.replaying() {
		d := ps.nextDec("r")
		ps.sol.Assert(c.Eq(t, c.Const(d.V, t.W)))
		if !ps.replaying() {
			ps.queries++
			switch ps.sol.Check() {
			case smt.Unsat:
				i.abort(outInfeasible, "candidate value infeasible")
			case smt.Unknown:
				ps.unknowns++
			}
		}
		return d.V
	}
	// a term that has a single feasible value is not a choice
	ps.queries++
	switch ps.sol.Check() {
	case smt.Unsat:
		i.abort(outInfeasible, "path condition unsatisfiable at concretisation (%s)", why)
	case smt.Unknown:
		ps.unknowns++
		i.abort(outInconclusive, "solver unknown at concretisation (%s) at %s", why, i.posOf(fr))
	}
	mv, err := ps.sol.Values([]*smt.Term{t})
	if err != nil {
		i.abort(outInconclusive, "no model at concretisation: %v", err)
	}
	v0, _ := smt.ParseVal(mv[t])
	if ps.check(c.Not(c.Eq(t, c.Const(v0, t.W)))) == smt.Unsat {
		ps.record(Dec{'r', v0})
		ps.sol.Assert(c.Eq(t, c.Const(v0, t.W)))
		return v0
	}
	if hi < lo || hi-lo+1 > uint64(ps.concCap) {
		i.abort(outBound, "more than %d candidate values for %s at %s", ps.concCap, why, i.posOf(fr))
	}
	// narrow [lo, hi] to the feasible hull by bisection (holes inside it die as infeasible candidates)
	if hi-lo >= 8 {
		a, b := lo, v0 // smallest feasible value is in [a, b]
		for a < b {
			m := a + (b-a)/2
			if ps.check(c.Cmp(smt.OpBvUle, t, c.Const(m, t.W))) == smt.Unsat {
				a = m + 1
			} else {
				b = m
			}
		}
		lo = a
		a, b = v0, hi // largest feasible value is in [a, b]
		for a < b {
			m := a + (b-a+1)/2
			if ps.check(c.Cmp(smt.OpBvUle, c.Const(m, t.W), t)) == smt.Unsat {
				b = m - 1
			} else {
				a = m
			}
		}
		hi = a
	}
	for v := lo; v <= hi; v++ {
		if v != v0 {
			ps.forkN(Dec{'r', v})
		}
	}
	ps.record(Dec{'r', v0})
	ps.sol.Assert(c.Eq(t, c.Const(v0, t.W)))
	return v0
}

// concInt concretises an integer-typed value to int64 (sign by the value's own kind when concrete; sym treated via signed flag).
func (i *interpreter) concInt(fr *frame, v value, signed bool, why string) int64 {
	if s, ok := v.(sym); ok {
		u := i.concretise(fr, s.t, why)
		if signed {
			w := s.t.W
			if w < 64 {
				sh := uint(64 - w)
				return int64(u<<sh) >> sh
			}
		}
		return int64(u)
	}
	return asInt64(v)
}

// choose picks one of n alternatives (all explored).
func (i *interpreter) choose(n int, why string) int { return i.chooseK(n, 'c') }

// chooseK: kind 'v' is a harness-level vChoose (a named input), 'c' an engine choice (schedule, select, map order).
func (i *interpreter) chooseK(n int, kind byte) int {
	ps := i.ps
	if n <= 1 {
		return 0
	}
	if ps.replaying() {
		d := ps.nextDec(string(kind))
		return int(d.V)
	}
	if ps.eng.Cfg.ConcreteMode {
		// concrete replay of a counterexample: decisions beyond the recorded ones take the first alternative
		ps.record(Dec{kind, 0})
		return 0
	}
	for k := n - 1; k >= 1; k-- {
		ps.fork(Dec{kind, uint64(k)})
	}
	ps.record(Dec{kind, 0})
	return 0
}

// assume adds cond to the path condition; the path ends if it cannot hold.
func (i *interpreter) assume(fr *frame, v value) {
	ps := i.ps
	switch v := v.(type) {
	case bool:
		if !v {
			i.abort(outInfeasible, "assumption false")
		}
	case sym:
		if ps.replaying() {
			// feasibility was established when this prefix was discovered only up to the fork;
			// assumptions after the fork point are checked below when not replaying.
		}
		ps.sol.Assert(v.t)
		if !ps.replaying() {
			ps.queries++
			r := ps.sol.Check()
			if r == smt.Unsat {
				i.abort(outInfeasible, "assumption unsatisfiable")
			}
			if r == smt.Unknown {
				ps.unknowns++
			}
		}
	default:
		panic(fmt.Sprintf("assume: %T", v))
	}
}

// model extracts the values of all nondet variables under the current scope plus extra (must follow a Sat check).
func (i *interpreter) model() (map[string]string, []string, map[string]string) {
	ps := i.ps
	var ts []*smt.Term
	for _, nd := range ps.nondets {
		ts = append(ts, nd.t...)
	}
	m := map[string]string{}
	kinds := map[string]string{}
	var order []string
	vals, err := ps.sol.Values(ts)
	for _, nd := range ps.nondets {
		order = append(order, nd.name)
		kinds[nd.name] = nd.kind
		if nd.t == nil {
			m[nd.name] = fmt.Sprintf("%x", nd.conc[0])
			continue
		}
		if err != nil {
			m[nd.name] = "?"
			continue
		}
		if len(nd.t) == 1 && !strings.HasPrefix(nd.kind, "bytes") {
			_, h := smt.ParseVal(vals[nd.t[0]])
			m[nd.name] = h
			continue
		}
		var sb strings.Builder
		for _, t := range nd.t {
			v, _ := smt.ParseVal(vals[t])
			fmt.Fprintf(&sb, "%02x", v&0xff)
		}
		m[nd.name] = sb.String()
	}
	return m, order, kinds
}

func (i *interpreter) violation(fr *frame, kind, label string, haveModel bool) {
	ps := i.ps
	v := &Violation{Harness: ps.harness, Kind: kind, Label: label, Pos: i.posOf(fr), Trace: decString(ps.trace), Stack: i.stackOf(fr)}
	if !haveModel {
		// the path must be shown feasible before anything on it counts as a counterexample
		// (an earlier 'unknown' feasibility answer may have kept an infeasible branch alive)
		ps.queries++
		switch ps.sol.Check() {
		case smt.Sat:
			haveModel = true
		case smt.Unsat:
			i.abort(outInfeasible, "path condition unsatisfiable at %s", label)
		default:
			ps.unknowns++
			ps.inconclusive = true
			ps.note("inconclusive: feasibility of the path to a failing check is unknown: " + label)
			i.abort(outInconclusive, "solver unknown on the path to a failing check: %s", label)
		}
	}
	v.Model, v.Order, v.Kinds = i.model()
	ps.viols = append(ps.viols, v)
}

// assert checks cond on this path: a satisfiable negation is a counterexample.
func (i *interpreter) assertV(fr *frame, v value, label string) {
	ps := i.ps
	c := ps.ctx
	switch v := v.(type) {
	case bool:
		if !v {
			i.violation(fr, "assert", label, false)
			i.abort(outOK, "assertion %q failed on every input of this path", label)
		}
	case sym:
		if ps.replaying() {
			// checked by the path this prefix was forked from
			ps.sol.Assert(v.t)
			return
		}
		neg := c.Not(v.t)
		ps.sol.Push()
		ps.sol.Assert(neg)
		ps.queries++
		r := ps.sol.Check()
		if r == smt.Sat {
			i.violation(fr, "assert", label, true)
		}
		ps.sol.Pop()
		if r == smt.Unknown {
			ps.unknowns++
			ps.note("inconclusive obligation: " + label)
			ps.inconclusive = true
		}
		if r == smt.Sat {
			// continue under the assumption that the assertion held, if possible
			ps.sol.Assert(v.t)
			ps.queries++
			if ps.sol.Check() != smt.Sat {
				i.abort(outOK, "assertion %q cannot hold on this path", label)
			}
		} else {
			ps.sol.Assert(v.t)
		}
	default:
		panic(fmt.Sprintf("assert: %T", v))
	}
}

func (ps *pathState) note(s string) {
	if ps.notes == nil {
		ps.notes = map[string]bool{}
	}
	ps.notes[s] = true
}

func sortedKeys(m map[string]bool) []string {
	var ks []string
	for k := range m {
		ks = append(ks, k)
	}
	sort.Strings(ks)
	return ks
}
