// Package symx is a symbolic executor for go/ssa, derived from
// golang.org/x/tools/go/ssa/interp (v0.29.0, BSD licence): the small-step
// semantics of every SSA instruction is kept, scalars may be SMT terms,
// branches on symbolic values fork the path, run-time checks and assertions
// become solver obligations, goroutines are scheduled explicitly.
package symx

import (
	"fmt"
	"go/token"
	"go/types"
	"runtime"
	"slices"

	"golang.org/x/tools/go/ssa"
	"verif/engine/smt"
)

type continuation int

const (
	kNext continuation = iota
	kReturn
	kJump
)

type methodSet map[string]*ssa.Function

// interpreter is the per-path machine state.
type interpreter struct {
	prog               *ssa.Program
	globals            map[*ssa.Global]*value
	eng                *Engine
	ps                 *pathState
	runtimeErrorString types.Type
	sizes              types.Sizes
	inited             map[*ssa.Package]bool
}

type deferred struct {
	fn    value
	args  []value
	instr *ssa.Defer
	tail  *deferred
}

type frame struct {
	i                *interpreter
	g                *goroutine
	caller           *frame
	fn               *ssa.Function
	block, prevBlock *ssa.BasicBlock
	env              []value
	info             *fnInfo
	locals           []value
	defers           *deferred
	result           value
	panicking        bool
	panic            interface{}
	phitemps         []value
	cur              ssa.Instruction
	symVisits        map[ssa.Instruction]int
}

// fnInfo numbers the SSA values of a function so that frames can keep them in a slice.
type fnInfo struct {
	index map[ssa.Value]int
	n     int
}

func (e *Engine) fnInfo(fn *ssa.Function) *fnInfo {
	if v, ok := e.finfo.Load(fn); ok {
		return v.(*fnInfo)
	}
	fi := &fnInfo{index: map[ssa.Value]int{}}
	add := func(v ssa.Value) {
		if _, ok := fi.index[v]; !ok {
			fi.index[v] = fi.n
			fi.n++
		}
	}
	for _, p := range fn.Params {
		add(p)
	}
	for _, fv := range fn.FreeVars {
		add(fv)
	}
	for _, l := range fn.Locals {
		add(l)
	}
	for _, b := range fn.Blocks {
		for _, in := range b.Instrs {
			if v, ok := in.(ssa.Value); ok {
				add(v)
			}
		}
	}
	e.finfo.Store(fn, fi)
	return fi
}

func (fr *frame) set(k ssa.Value, v value) { fr.env[fr.info.index[k]] = v }

func mustDeref(t types.Type) types.Type {
	if p, ok := t.Underlying().(*types.Pointer); ok {
		return p.Elem()
	}
	panic(fmt.Sprintf("mustDeref: %v", t))
}

func (fr *frame) get(key ssa.Value) value {
	switch key := key.(type) {
	case nil:
		return nil
	case *ssa.Function, *ssa.Builtin:
		return key
	case *ssa.Const:
		return constValue(key)
	case *ssa.Global:
		if r, ok := fr.i.globals[key]; ok {
			return r
		}
		return fr.i.global(key)
	}
	if k, ok := fr.info.index[key]; ok {
		return fr.env[k]
	}
	panic(fmt.Sprintf("get: no value for %T: %v", key, key.Name()))
}

// global allocates storage for a global on first use (packages outside the
// initialised set still have zero-valued globals).
func (i *interpreter) global(g *ssa.Global) *value {
	cell := zero(mustDeref(g.Type()))
	i.globals[g] = &cell
	return &cell
}

func (fr *frame) runDefer(d *deferred) {
	var ok bool
	defer func() {
		if !ok {
			r := recover()
			if ab, isab := r.(abortPanic); isab {
				panic(ab)
			}
			if cp, isc := r.(crashPanic); isc {
				panic(cp)
			}
			fr.panicking = true
			fr.panic = r
		}
	}()
	call(fr.i, fr, d.instr.Pos(), d.fn, d.args)
	ok = true
}

func (fr *frame) runDefers() {
	for d := fr.defers; d != nil; d = d.tail {
		fr.runDefer(d)
	}
	fr.defers = nil
	if fr.panicking {
		panic(fr.panic)
	}
}

func lookupMethod(i *interpreter, typ types.Type, meth *types.Func) *ssa.Function {
	return i.prog.LookupMethod(typ, meth.Pkg(), meth.Name())
}

func visitInstr(fr *frame, instr ssa.Instruction) continuation {
	i := fr.i
	switch instr := instr.(type) {
	case *ssa.DebugRef:

	case *ssa.UnOp:
		fr.set(instr, i.unop(fr, instr, fr.get(instr.X)))

	case *ssa.BinOp:
		fr.set(instr, i.binop(fr, instr.Op, instr.X.Type(), instr.Y.Type(), fr.get(instr.X), fr.get(instr.Y)))

	case *ssa.Call:
		fn, args := prepareCall(fr, &instr.Call)
		fr.set(instr, call(fr.i, fr, instr.Pos(), fn, args))

	case *ssa.ChangeInterface:
		fr.set(instr, fr.get(instr.X))

	case *ssa.ChangeType:
		fr.set(instr, fr.get(instr.X))

	case *ssa.Convert:
		fr.set(instr, i.conv(fr, instr.Type(), instr.X.Type(), fr.get(instr.X)))

	case *ssa.SliceToArrayPointer:
		fr.set(instr, sliceToArrayPointer(instr.Type(), instr.X.Type(), fr.get(instr.X)))

	case *ssa.MakeInterface:
		fr.set(instr, iface{t: instr.X.Type(), v: fr.get(instr.X)})

	case *ssa.Extract:
		fr.set(instr, fr.get(instr.Tuple).(tuple)[instr.Index])

	case *ssa.Slice:
		fr.set(instr, i.slice(fr, fr.get(instr.X), fr.get(instr.Low), fr.get(instr.High), fr.get(instr.Max)))

	case *ssa.Return:
		switch len(instr.Results) {
		case 0:
		case 1:
			fr.result = fr.get(instr.Results[0])
		default:
			var res []value
			for _, r := range instr.Results {
				res = append(res, fr.get(r))
			}
			fr.result = tuple(res)
		}
		fr.block = nil
		return kReturn

	case *ssa.RunDefers:
		fr.runDefers()

	case *ssa.Panic:
		panic(targetPanic{fr.get(instr.X)})

	case *ssa.Send:
		ch, _ := fr.get(instr.Chan).(*channel)
		i.chanSend(fr, ch, fr.get(instr.X))

	case *ssa.Store:
		i.storeAt(fr, mustDeref(instr.Addr.Type()), fr.get(instr.Addr), fr.get(instr.Val))

	case *ssa.If:
		succ := 1
		if i.condBool(fr, fr.get(instr.Cond)) {
			succ = 0
		}
		fr.prevBlock, fr.block = fr.block, fr.block.Succs[succ]
		return kJump

	case *ssa.Jump:
		fr.prevBlock, fr.block = fr.block, fr.block.Succs[0]
		return kJump

	case *ssa.Defer:
		fn, args := prepareCall(fr, &instr.Call)
		defers := &fr.defers
		if into := fr.get(instr.DeferStack); into != nil {
			defers = into.(**deferred)
		}
		*defers = &deferred{fn: fn, args: args, instr: instr, tail: *defers}

	case *ssa.Go:
		fn, args := prepareCall(fr, &instr.Call)
		pos := instr.Pos()
		i.ps.sched.spawn(fr, func(g *goroutine) {
			top := &frame{i: i, g: g, fn: fr.fn, cur: instr}
			g.top = top
			callIn(i, top, g, pos, fn, args)
		})

	case *ssa.MakeChan:
		n := i.concInt(fr, fr.get(instr.Size), true, "chan size")
		fr.set(instr, i.makeChan(instr.Type().Underlying().(*types.Chan).Elem(), int(n)))

	case *ssa.Alloc:
		var addr *value
		if instr.Heap {
			addr = new(value)
			fr.set(instr, addr)
		} else {
			addr = fr.get(instr).(*value)
		}
		*addr = zero(mustDeref(instr.Type()))

	case *ssa.MakeSlice:
		tElt := instr.Type().Underlying().(*types.Slice).Elem()
		ln := i.makeLen(fr, fr.get(instr.Len), tElt, "make len")
		cp := ln
		if instr.Cap != instr.Len {
			cp = i.makeLen(fr, fr.get(instr.Cap), tElt, "make cap")
		}
		if ln > cp {
			panic(runtimeErr("makeslice: cap out of range"))
		}
		sl := make([]value, cp)
		for k := range sl {
			sl[k] = zero(tElt)
		}
		fr.set(instr, sl[:ln])

	case *ssa.MakeMap:
		fr.set(instr, makeMap(instr.Type().Underlying().(*types.Map).Key(), 0))

	case *ssa.Range:
		fr.set(instr, i.rangeIter(fr, fr.get(instr.X), instr.X.Type()))

	case *ssa.Next:
		fr.set(instr, fr.get(instr.Iter).(iter).next())

	case *ssa.FieldAddr:
		fr.set(instr, &(*fr.get(instr.X).(*value)).(structure)[instr.Field])

	case *ssa.Field:
		fr.set(instr, fr.get(instr.X).(structure)[instr.Field])

	case *ssa.IndexAddr:
		x := fr.get(instr.X)
		idx := fr.get(instr.Index)
		var cells []value
		switch x := x.(type) {
		case []value:
			cells = x
		case *value:
			cells = (*x).(array)
		default:
			panic(fmt.Sprintf("unexpected x type in IndexAddr: %T", x))
		}
		if len(cells) > 0 && i.ps.ufTables != nil {
			if name, ok := i.ps.ufTables[&cells[0]]; ok && onlyLoaded(instr) {
				// a table declared uninterpreted by the harness: every look-up is T(index)
				c := i.ps.ctx
				t := i.term(idx)
				if !i.branchCheck(fr, c.Cmp(smt.OpBvUlt, i.idx64(t, kindSigned(basicOf(instr.Index.Type()).Kind())), c.Const(uint64(len(cells)), 64)), "index") {
					panic(runtimeErr("index out of range"))
				}
				fr.set(instr, &ufref{name: name, arg: c.Extract(t, 7, 0)})
				break
			}
		}
		if s, ok := idx.(sym); ok {
			if onlyLoaded(instr) && len(cells) <= 512 {
				fr.set(instr, &symref{cells: cells, idx: s.t, signed: kindSigned(basicOf(instr.Index.Type()).Kind())})
				break
			}
			k := i.symIndex(fr, s, instr.Index.Type(), len(cells))
			fr.set(instr, &cells[k])
			break
		}
		fr.set(instr, &cells[asInt64(idx)])

	case *ssa.Index:
		x := fr.get(instr.X)
		idx := fr.get(instr.Index)
		var cells []value
		switch x := x.(type) {
		case array:
			cells = x
		case string, *symstr:
			cells = strBytes(x)
		default:
			panic(fmt.Sprintf("unexpected x type in Index: %T", x))
		}
		if s, ok := idx.(sym); ok {
			fr.set(instr, i.symLoad(fr, &symref{cells: cells, idx: s.t, signed: kindSigned(basicOf(instr.Index.Type()).Kind())}))
			break
		}
		fr.set(instr, cells[asInt64(idx)])

	case *ssa.Lookup:
		fr.set(instr, i.lookup(fr, instr, fr.get(instr.X), fr.get(instr.Index)))

	case *ssa.MapUpdate:
		m := fr.get(instr.Map).(*hashmap)
		if m == nil {
			panic(runtimeErr("assignment to entry in nil map"))
		}
		m.insert(i, fr, i.mapKey(fr, m, fr.get(instr.Key)), fr.get(instr.Value))

	case *ssa.TypeAssert:
		fr.set(instr, typeAssert(fr.i, instr, fr.get(instr.X).(iface)))

	case *ssa.MakeClosure:
		var bindings []value
		for _, binding := range instr.Bindings {
			bindings = append(bindings, fr.get(binding))
		}
		fr.set(instr, &closure{instr.Fn.(*ssa.Function), bindings})

	case *ssa.Phi:
		panic("unreachable")

	case *ssa.Select:
		var cases []selCase
		for _, st := range instr.States {
			ch, _ := fr.get(st.Chan).(*channel)
			c := selCase{ch: ch, send: st.Dir == types.SendOnly}
			if st.Send != nil {
				c.v = fr.get(st.Send)
			}
			cases = append(cases, c)
		}
		chosen, recv, recvOk := i.chanSelect(fr, cases, instr.Blocking)
		r := tuple{chosen, recvOk}
		for k, st := range instr.States {
			if st.Dir == types.RecvOnly {
				var v value
				if k == chosen && recvOk {
					v = recv
				} else {
					v = zero(st.Chan.Type().Underlying().(*types.Chan).Elem())
				}
				r = append(r, v)
			}
		}
		fr.set(instr, r)

	default:
		panic(fmt.Sprintf("unexpected instruction: %T", instr))
	}
	return kNext
}

// onlyLoaded reports whether every use of the address is a load.
func onlyLoaded(instr *ssa.IndexAddr) bool {
	refs := instr.Referrers()
	if refs == nil || len(*refs) == 0 {
		return false
	}
	for _, r := range *refs {
		u, ok := r.(*ssa.UnOp)
		if !ok || u.Op != token.MUL {
			return false
		}
	}
	return true
}

func prepareCall(fr *frame, call *ssa.CallCommon) (fn value, args []value) {
	v := fr.get(call.Value)
	if call.Method == nil {
		fn = v
	} else {
		recv := v.(iface)
		if recv.t == nil {
			panic(runtimeErr("invalid memory address or nil pointer dereference (method call on nil interface)"))
		}
		if f := lookupMethod(fr.i, recv.t, call.Method); f == nil {
			panic(fmt.Sprintf("method set for dynamic type %v does not contain %s", recv.t, call.Method))
		} else {
			fn = f
		}
		args = append(args, recv.v)
	}
	for _, arg := range call.Args {
		args = append(args, fr.get(arg))
	}
	return
}

func call(i *interpreter, caller *frame, callpos token.Pos, fn value, args []value) value {
	var g *goroutine
	if caller != nil {
		g = caller.g
	}
	return callIn(i, caller, g, callpos, fn, args)
}

func callIn(i *interpreter, caller *frame, g *goroutine, callpos token.Pos, fn value, args []value) value {
	switch fn := fn.(type) {
	case *ssa.Function:
		if fn == nil {
			panic(runtimeErr("invalid memory address or nil pointer dereference (call of nil func)"))
		}
		return callSSA(i, caller, g, callpos, fn, args, nil)
	case *closure:
		return callSSA(i, caller, g, callpos, fn.Fn, args, fn.Env)
	case *ssa.Builtin:
		return callBuiltin(caller, callpos, fn, args)
	}
	panic(fmt.Sprintf("cannot call %T", fn))
}

func callSSA(i *interpreter, caller *frame, g *goroutine, callpos token.Pos, fn *ssa.Function, args []value, env []value) value {
	fr := &frame{i: i, g: g, caller: caller, fn: fn}
	if fn.Parent() == nil {
		if res, handled := i.intercept(fr, fn, args); handled {
			return res
		}
		if fn.Blocks == nil {
			i.abort(outUnsupported, "no code for function %s (called at %s)", fn, i.posOf(caller))
		}
	}
	if fn.TypeParams().Len() > 0 && len(fn.TypeArgs()) == 0 {
		panic("generic function body: " + fn.String())
	}
	if i.ps.funcs != nil {
		i.ps.funcs[fn] = true
	}

	fr.info = i.eng.fnInfo(fn)
	fr.env = make([]value, fr.info.n)
	fr.block = fn.Blocks[0]
	fr.locals = make([]value, len(fn.Locals))
	for k, l := range fn.Locals {
		fr.locals[k] = zero(mustDeref(l.Type()))
		fr.set(l, &fr.locals[k])
	}
	for k, p := range fn.Params {
		fr.set(p, args[k])
	}
	for k, fv := range fn.FreeVars {
		fr.set(fv, env[k])
	}
	for fr.block != nil {
		runFrame(fr)
	}
	return fr.result
}

func runFrame(fr *frame) {
	defer func() {
		if fr.block == nil {
			return // normal return
		}
		r := recover()
		if ab, ok := r.(abortPanic); ok {
			panic(ab)
		}
		if cp, ok := r.(crashPanic); ok {
			panic(cp)
		}
		if s, ok := r.(string); ok && len(s) > 7 && s[:7] == "engine:" {
			panic(r)
		}
		fr.panicking = true
		fr.panic = r
		if ps := fr.i.ps; !ps.panicActive {
			ps.panicActive = true
			ps.panicPos = fr.i.posOf(fr)
			ps.panicStack = fr.i.stackOf(fr)
		}
		fr.runDefers()
		fr.block = fr.fn.Recover
	}()

	ps := fr.i.ps
	for {
		nonPhis := executePhis(fr)
		ps.steps += int64(len(nonPhis))
		if ps.steps > ps.eng.Cfg.MaxSteps {
			fr.i.abort(outUnwind, "step budget of %d instructions exceeded", ps.eng.Cfg.MaxSteps)
		}
		for _, instr := range nonPhis {
			fr.cur = instr
			if visitInstr(fr, instr) == kReturn {
				return
			}
		}
	}
}

func executePhis(fr *frame) []ssa.Instruction {
	firstNonPhi := -1
	for i, instr := range fr.block.Instrs {
		if _, ok := instr.(*ssa.Phi); !ok {
			firstNonPhi = i
			break
		}
	}
	nonPhis := fr.block.Instrs[firstNonPhi:]
	if firstNonPhi > 0 {
		phis := fr.block.Instrs[:firstNonPhi]
		predIndex := slices.Index(fr.block.Preds, fr.prevBlock)
		fr.phitemps = fr.phitemps[:0]
		for _, phi := range phis {
			phi := phi.(*ssa.Phi)
			fr.phitemps = append(fr.phitemps, fr.get(phi.Edges[predIndex]))
		}
		for i, phi := range phis {
			fr.set(phi.(*ssa.Phi), fr.phitemps[i])
		}
	}
	return nonPhis
}

func doRecover(caller *frame) value {
	if caller != nil && !caller.panicking &&
		caller.caller != nil && caller.caller.panicking {
		caller.caller.panicking = false
		caller.i.ps.panicActive = false
		p := caller.caller.panic
		caller.caller.panic = nil
		switch p := p.(type) {
		case targetPanic:
			return p.v
		case runtime.Error:
			return iface{caller.i.runtimeErrorString, p.Error()}
		case string:
			return iface{caller.i.runtimeErrorString, p}
		default:
			panic(fmt.Sprintf("unexpected panic type %T in target call to recover()", p))
		}
	}
	return iface{}
}

// topLevelPanic records a Go panic that reached the top of a goroutine.
func (i *interpreter) topLevelPanic(fr *frame, r interface{}) {
	ps := i.ps
	var msg string
	switch p := r.(type) {
	case targetPanic:
		msg = "panic: " + toString(p.v)
	case runtime.Error:
		msg = "panic: " + p.Error()
	case string:
		msg = "panic: " + p
	default:
		msg = fmt.Sprintf("panic: %v", p)
	}
	if s, ok := r.(string); ok && len(s) > 7 && s[:7] == "engine:" {
		if ps.out == outRunning {
			ps.out = outEngineError
			ps.msg = s
		}
		return
	}
	if re, ok := r.(runtime.Error); ok {
		if _, mine := re.(runtimeErr); !mine {
			// a host run-time error: either the target's (nil deref, index) or an engine bug; keep the stack
			buf := make([]byte, 4096)
			buf = buf[:runtime.Stack(buf, false)]
			ps.hostStack = string(buf)
		}
	}
	if !ps.expectPanic {
		i.violationAt(ps.panicPos, ps.panicStack, "panic", msg)
	}
	if ps.out == outRunning {
		ps.out = outPanic
		ps.msg = msg
	}
}

func (i *interpreter) violationAt(pos string, stack []string, kind, label string) {
	ps := i.ps
	v := &Violation{Harness: ps.harness, Kind: kind, Label: label, Pos: pos, Trace: decString(ps.trace), Stack: stack}
	ps.queries++
	if ps.sol.Check() != smt.Sat {
		// not shown feasible: no counterexample
		ps.inconclusive = true
		ps.note("inconclusive: feasibility of a panicking path is unknown: " + label)
		return
	}
	v.Model, v.Order, v.Kinds = i.model()
	ps.viols = append(ps.viols, v)
}
