// Copyright 2013 The Go Authors. All rights reserved.
// Use of this source code is governed by a BSD-style
// license that can be found in the LICENSE file.

package symx

// Emulated functions that we cannot interpret because they are
// external or because they use "unsafe" or "reflect" operations.

import (
	"math"
	"strconv"
	"strings"
	"unicode/utf8"
)

type externalFn func(fr *frame, args []value) value

func ext۰math۰Float64frombits(fr *frame, args []value) value {
	return math.Float64frombits(args[0].(uint64))
}

func ext۰math۰Float64bits(fr *frame, args []value) value {
	return math.Float64bits(args[0].(float64))
}

func ext۰math۰Float32frombits(fr *frame, args []value) value {
	return math.Float32frombits(args[0].(uint32))
}

func ext۰math۰Abs(fr *frame, args []value) value {
	return math.Abs(args[0].(float64))
}

func ext۰math۰Copysign(fr *frame, args []value) value {
	return math.Copysign(args[0].(float64), args[1].(float64))
}

func ext۰math۰Exp(fr *frame, args []value) value {
	return math.Exp(args[0].(float64))
}

func ext۰math۰Float32bits(fr *frame, args []value) value {
	return math.Float32bits(args[0].(float32))
}

func ext۰math۰Min(fr *frame, args []value) value {
	return math.Min(args[0].(float64), args[1].(float64))
}

func ext۰math۰NaN(fr *frame, args []value) value {
	return math.NaN()
}

func ext۰math۰IsNaN(fr *frame, args []value) value {
	return math.IsNaN(args[0].(float64))
}

func ext۰math۰Inf(fr *frame, args []value) value {
	return math.Inf(args[0].(int))
}

func ext۰math۰Ldexp(fr *frame, args []value) value {
	return math.Ldexp(args[0].(float64), args[1].(int))
}

func ext۰math۰Log(fr *frame, args []value) value {
	return math.Log(args[0].(float64))
}

func ext۰math۰Sqrt(fr *frame, args []value) value {
	return math.Sqrt(args[0].(float64))
}



func ext۰strconv۰Itoa(fr *frame, args []value) value {
	return strconv.Itoa(args[0].(int))
}
func ext۰strconv۰FormatFloat(fr *frame, args []value) value {
	return strconv.FormatFloat(args[0].(float64), args[1].(byte), args[2].(int), args[3].(int))
}

func ext۰strings۰Count(fr *frame, args []value) value {
	return strings.Count(args[0].(string), args[1].(string))
}

func ext۰strings۰EqualFold(fr *frame, args []value) value {
	return strings.EqualFold(args[0].(string), args[1].(string))
}
func ext۰strings۰IndexByte(fr *frame, args []value) value {
	return strings.IndexByte(args[0].(string), args[1].(byte))
}

func ext۰strings۰Index(fr *frame, args []value) value {
	return strings.Index(args[0].(string), args[1].(string))
}

func ext۰strings۰Replace(fr *frame, args []value) value {
	// func Replace(s, old, new string, n int) string
	s := args[0].(string)
	new := args[1].(string)
	old := args[2].(string)
	n := args[3].(int)
	return strings.Replace(s, old, new, n)
}

func ext۰strings۰ToLower(fr *frame, args []value) value {
	return strings.ToLower(args[0].(string))
}










func ext۰unicode۰utf8۰DecodeRuneInString(fr *frame, args []value) value {
	r, n := utf8.DecodeRuneInString(args[0].(string))
	return tuple{r, n}
}

