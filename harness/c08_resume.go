package desync

import (
	"context"
	"os"
)

// VerifC08_Resume: an in-place extract over a file that already holds some of the chunks
// (a previous run died) completes correctly and does not fetch those chunks again.
func VerifC08_Resume() {
	k := 2 + vChoose("chunks", 2)
	blob, idx, st := verifBlobIndex(k, 1)
	for a := 0; a < k; a++ { // distinct chunks, so a fetch can be attributed to a position
		for b := a + 1; b < k; b++ {
			vAssume(blob[a] != blob[b])
		}
	}
	dir := vTempDir()
	target := dir + "/out"
	// prior state: every byte either already correct or arbitrary
	prior := make([]byte, len(blob))
	already := make([]bool, k)
	for c := 0; c < k; c++ {
		if vChoose("already-written", 2) == 1 {
			prior[c] = blob[c]
			already[c] = true
		} else {
			prior[c] = vU8("garbage")
		}
	}
	os.WriteFile(target, prior, 0644)
	_, err := AssembleFile(context.Background(), target, idx, st, nil, AssembleOptions{N: 1})
	vCover("returned")
	vAssert(err == nil, "re-run of an in-place extract failed although the store holds every chunk")
	got, _ := os.ReadFile(target)
	vAssert(vEqBytes(got, blob), "re-run produced a file that differs from the blob")
	for c := 0; c < k; c++ {
		if already[c] {
			for _, id := range st.getLog {
				vAssert(id != idx.Chunks[c].ID, "a chunk that was already in the file was fetched again")
			}
		}
	}
}
