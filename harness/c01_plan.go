package desync

// C01 (kernels): the plan covers every index position exactly once with matching seed
// segments; the self-seed only exposes a contiguous written prefix.

func verifSymIDIndex(what string, n int) Index {
	idx := Index{Index: FormatIndex{FeatureFlags: CaFormatSHA512256, ChunkSizeMin: 1, ChunkSizeAvg: 1, ChunkSizeMax: 2}}
	var start uint64
	for c := 0; c < n; c++ {
		var id ChunkID
		id[0] = vU8(what + "-id")
		size := 1 + uint64(id[0]&1) // equal ID implies equal size
		idx.Chunks = append(idx.Chunks, IndexChunk{ID: id, Start: start, Size: size})
		start += size
	}
	return idx
}

func VerifC01_Plan() {
	maxN := 3
	if vTier() > 0 {
		maxN = 4
	}
	k := vChoose("target-chunks", maxN+1)
	m := vChoose("seed-chunks", maxN+1)
	idx := verifSymIDIndex("target", k)
	sidx := verifSymIDIndex("seed", m)
	seed := &FileSeed{srcFile: "seed", index: sidx, pos: make(map[ChunkID][]int), canReflink: vBool("can-reflink"), isInvalid: vBool("seed-invalid")}
	for i, c := range sidx.Chunks {
		seed.pos[c.ID] = append(seed.pos[c.ID], i)
	}
	seq := NewSeedSequencer(idx, seed)
	plan := seq.Plan()
	vCover("planned")
	next := 0
	for _, s := range plan {
		seg := s.indexSegment
		vAssert(seg.first == next, "plan segments are not consecutive (gap or overlap)")
		vAssert(seg.last >= seg.first && seg.last < k, "plan segment refers to a position outside the chunk table")
		if seg.last < seg.first || seg.last >= k {
			return
		}
		if s.source != nil {
			vAssert(!seed.isInvalid, "an invalid seed was used in the plan")
			vAssert(s.source.Size() == seg.lengthBytes(), "seed segment and index segment differ in size")
			fs := s.source.(*fileSeedSegment)
			vAssert(len(fs.chunks) == seg.lengthChunks(), "seed segment and index segment differ in chunk count")
			for j := 0; j < len(fs.chunks) && j < seg.lengthChunks(); j++ {
				vAssert(fs.chunks[j].ID == idx.Chunks[seg.first+j].ID, "seed segment chunk has a different ID than the index chunk it replaces")
			}
		}
		next = seg.last + 1
	}
	vAssert(next == k, "plan does not cover the whole index")
	vAssert(seed.mu.TryLock(), "seed lock still held after planning")
}

// VerifC01_SelfSeed: segments are added in an arbitrary order; getChunk only ever hands
// out chunks of the contiguous prefix that has been written.
func VerifC01_SelfSeed() {
	k := 2 + vChoose("chunks", 2)
	if vTier() > 0 {
		k = 2 + vChoose("chunks", 4)
	}
	idx := verifSymIDIndex("target", k)
	ss := &selfSeed{file: "out", pos: make(map[ChunkID][]int), index: idx, cache: make(map[int]int)}
	added := make([]bool, k)
	for step := 0; step < k; step++ {
		// pick any position not yet added (the workers finish in any order)
		p := vChoose("next-added", k)
		vAssume(!added[p])
		added[p] = true
		ss.add(IndexSegment{index: idx, first: p, last: p})
		prefix := 0
		for prefix < k && added[prefix] {
			prefix++
		}
		vAssert(ss.written == prefix, "self-seed 'written' is not the end of the contiguous prefix")
		var probe ChunkID
		probe[0] = vU8("probe-id")
		if seg := ss.getChunk(probe); seg != nil {
			vCover("self-seed-hit")
			c := seg.(*fileSeedSegment).chunks[0]
			vAssert(c.ID == probe, "self-seed returned a chunk with another ID")
			inPrefix := false
			for q := 0; q < prefix; q++ {
				inPrefix = vOr(inPrefix, vAnd(idx.Chunks[q].ID == probe, idx.Chunks[q].Start == c.Start))
			}
			vAssert(inPrefix, "self-seed exposed a chunk that is not in the written prefix")
		}
	}
}
