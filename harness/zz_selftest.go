package desync

// Engine self-tests (not tied to a property).

func VerifSelf_Trivial() {
	k := vChoose("k", 400)
	vCover("x")
	vAssert(k >= 0, "nonneg")
}
