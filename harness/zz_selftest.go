package desync


// Engine self-tests (not tied to a property).

import (
	"bytes"
	"strconv"
	"context"
	"path"
	"io"
	"net/http"
	"os"
	"path/filepath"
)

func VerifSelf_Trivial() {
	k := vChoose("k", 400)
	vCover("x")
	vAssert(k >= 0, "nonneg")
}

func VerifSelf_FS() {
	d := vTempDir()
	name := d + "/f"
	data := vBytes("data", 3)
	err := os.WriteFile(name, data, 0644)
	vAssert(err == nil, "write")
	b, err := os.ReadFile(name)
	vAssert(err == nil, "read")
	vAssert(vEqBytes(b, data), "same data")
	st, err := os.Stat(name)
	vAssert(err == nil && st.Size() == 3, "stat size")
	_, err = os.Stat(d + "/missing")
	vAssert(os.IsNotExist(err), "enoent")
	vAssert(os.Rename(name, d+"/g") == nil, "rename")
	_, err = os.Stat(name)
	vAssert(os.IsNotExist(err), "gone after rename")
	var seen []string
	filepath.Walk(d, func(p string, info os.FileInfo, err error) error {
		seen = append(seen, p)
		return nil
	})
	vAssert(len(seen) == 2, "walk sees dir and file")
	f, _ := os.Open(d + "/g")
	buf := make([]byte, 2)
	n, err := f.ReadAt(buf, 2)
	vAssert(n == 1 && err == io.EOF, "ReadAt short read gives EOF")
	vCover("fs")
}

func VerifSelf_HTTP() {
	rt := &verifRT{f: func(r *http.Request) (*http.Response, error) { return verifResp(200, []byte{0x61, 0x62}), nil }}
	s := verifHTTPStore(rt, StoreOptions{ErrorRetry: 1, Uncompressed: true})
	good := NewChunk([]byte{0x61, 0x62})
	c, err := s.GetChunk(good.ID())
	if err != nil {
		vNote("err: " + err.Error())
	}
	vAssert(err == nil && c != nil, "http get works")
	vAssert(rt.calls == 1, "one call")
	vCover("x")
}

func VerifSelf_Path() {
	vNote("join=" + path.Join(".", "//a") + " fjoin=" + filepath.Join("/r/dest", path.Join(".", "//a")))
	a := newVerifArchive()
	a.entry(os.ModeDir | 0755)
	a.filename("//a")
	a.entry(0644)
	a.payload([]byte("x"))
	a.goodbye()
	parent, dest, _ := verifSandbox()
	fs := NewLocalFS(dest, LocalFSOptions{})
	err := UnTar(context.Background(), bytes.NewReader(a.buf.Bytes()), fs)
	if err != nil {
		vNote("err=" + err.Error())
	}
	for _, f := range vFSList("/") {
		vNote("file " + f)
	}
	_ = parent
	vCover("x")
}

func VerifSelf_SipHash() {
	// reference vectors of SipHash-2-4 through desync.SipHash's key are not public; compare two
	// known values computed with the native assembly implementation (recorded here)
	vAssert(SipHash([]byte("")) == verifSipNative0, "siphash empty")
	vAssert(SipHash([]byte("hello world, this is sip")) == verifSipNative1, "siphash 24 bytes")
	vCover("x")
}

const (
	verifSipNative0 = 0xb64acab6ca921906
	verifSipNative1 = 0x7bb732386086886b
)

func VerifSelf_C02Debug() {
	vFSYield(false)
	data := verifPattern(300, 100, 150, false)
	dir := vTempDir()
	name := dir + "/in"
	os.WriteFile(name, data, 0644)
	want := verifSequentialIndex(data, 48, 64, 72)
	idx, _, err := IndexFromFile(context.Background(), name, 3, 48, 64, 72, NullProgressBar{})
	s := "want:"
	for _, c := range want {
		s += " " + strconv.Itoa(int(c.Start)) + "+" + strconv.Itoa(int(c.Size))
	}
	s += " got:"
	for _, c := range idx.Chunks {
		s += " " + strconv.Itoa(int(c.Start)) + "+" + strconv.Itoa(int(c.Size))
	}
	if err != nil {
		s += " err"
	}
	vNote(s)
	vCover("x")
}
