package desync

// C02 / C06: chunks handed out by the chunker stay what they were.

import (
	"bytes"
	"context"
	"io"
	"math/bits"
	"sync"
)

func verifLongStream(n int) []byte {
	b := make([]byte, n)
	x := uint32(12345)
	for c := range b {
		x = x*1664525 + 1013904223
		b[c] = byte(x >> 24)
	}
	return b
}

// VerifC02_Retained: every slice Next returned is still the input range it described after
// the whole stream has been chunked (consumers such as ChunkStream hash and store chunks
// while the chunker moves on).  Streams span zero, one, two and three refills of the
// chunker's 10*max buffer.
func VerifC02_Retained() {
	sizes := []int{100, 719, 720, 721, 1439, 1441, 1600, 2300}
	data := verifLongStream(sizes[vChoose("stream-length", len(sizes))])
	c, err := NewChunker(bytes.NewReader(data), 48, 64, 72)
	if err != nil {
		panic(err)
	}
	type piece struct {
		start uint64
		b     []byte
	}
	var got []piece
	for {
		start, b, err := c.Next()
		vAssert(err == nil, "Next failed on a healthy reader")
		if len(b) == 0 {
			break
		}
		got = append(got, piece{start, b})
	}
	vCover("chunked")
	var pos uint64
	for _, p := range got {
		vAssert(p.start == pos, "chunks do not tile the stream")
		vAssert(bytes.Equal(p.b, data[p.start:p.start+uint64(len(p.b))]), "a chunk handed out earlier was overwritten by a later Next")
		pos += uint64(len(p.b))
	}
	vAssert(pos == uint64(len(data)), "chunks do not cover the stream")
}

// verifStallStore delays its first HasChunk until the input reader has reached EOF: one
// store request that takes as long as chunking the rest of the stream (a retried upload).
type verifStallStore struct {
	*verifStore
	mu      sync.Mutex
	first   bool
	release chan struct{}
}

func (s *verifStallStore) HasChunk(id ChunkID) (bool, error) {
	s.mu.Lock()
	stall := !s.first
	s.first = true
	s.mu.Unlock()
	if stall {
		<-s.release
	}
	return s.verifStore.HasChunk(id)
}

type verifEOFSignal struct {
	r       io.Reader
	once    sync.Once
	release chan struct{}
}

func (e *verifEOFSignal) Read(p []byte) (int, error) {
	n, err := e.r.Read(p)
	if err == io.EOF {
		e.once.Do(func() { close(e.release) })
	}
	return n, err
}

// VerifC06_ChunkStreamStall: ChunkStream over a stream of several buffer refills while one
// store request stalls until the input is exhausted: on success every chunk of the index
// reads back valid from the store and the index describes the input.
func VerifC06_ChunkStreamStall() {
	vSchedFixed(true) // the stall fixes the interesting order; other orders are VerifC06_ChunkStream's subject
	sizes := []int{721, 1600, 2300} // (a stream of more than 1024 chunks, ~75 kB, exceeds the step and time budgets: outside the bounds)
	data := verifLongStream(sizes[vChoose("stream-length", len(sizes))])
	release := make(chan struct{})
	c, err := NewChunker(&verifEOFSignal{r: bytes.NewReader(data), release: release}, 48, 64, 72)
	if err != nil {
		panic(err)
	}
	dst := &verifStallStore{verifStore: &verifStore{}, release: release}
	n := 2 + vChoose("workers", 3)
	idx, err := ChunkStream(context.Background(), c, dst, n)
	vCover("returned")
	vAssert(err == nil, "ChunkStream failed although no store operation failed")
	if err == nil {
		vAssert(idx.Length() == int64(len(data)), "index does not cover the input")
		for _, ch := range idx.Chunks {
			vAssert(Digest.Sum(data[ch.Start:ch.Start+ch.Size]) == ch.ID, "index entry does not hash to its range")
		}
		verifAllStored(dst.verifStore, idx, "ChunkStream")
	}
}

// VerifC02_Discriminator: the boundary discriminator derived from avg, compared with casync's
// formula avg / (1.33237515 - 1.42888852e-7*avg) evaluated in exact integer arithmetic (floor of
// avg*10^15 / (1332375150000000 - 142888852*avg), 128-bit).  Floating point is not symbolic in
// this engine: the values are enumerated (every avg the CLI can express in KiB up to 8 MiB, and
// every avg from 48 to 20000 bytes).
func VerifC02_Discriminator() {
	ref := func(avg uint64) uint32 {
		hi, lo := bits.Mul64(avg, 1000000000000000)
		den := 1332375150000000 - 142888852*avg
		q, _ := bits.Div64(hi, lo, den)
		return uint32(q)
	}
	lo, hi := uint64(48), uint64(20000)
	if vChoose("family", 2) == 1 {
		for kib := uint64(1); kib <= 8192; kib++ {
			vAssert(discriminatorFromAvg(kib*1024) == ref(kib*1024), "discriminator differs from casync's formula for an average given in KiB")
		}
	} else {
		for avg := lo; avg <= hi; avg++ {
			vAssert(discriminatorFromAvg(avg) == ref(avg), "discriminator differs from casync's formula for a small average")
		}
	}
	vCover("compared")
}
