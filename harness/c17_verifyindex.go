package desync

// C17: verify-index accepts a file if and only if it matches the index.

import (
	"context"
	"os"
)

// verifC17Case builds a file of k one-byte chunks (+delta bytes) and an index whose
// chunk IDs are the real digests, except that the first ID byte of chunk j is xor-ed with flip.
func verifC17Case(k, delta int, j int, flip uint8) (string, Index) {
	dir := vTempDir()
	name := dir + "/blob"
	l := k + delta
	if l < 0 {
		l = 0
	}
	// concrete contents: the batching under test does not depend on them, and concrete
	// digests keep the uninterpreted hash (and its pairwise collision axioms) out of the queries
	data := make([]byte, l)
	for c := range data {
		data[c] = byte(c*7 + 1)
	}
	if err := os.WriteFile(name, data, 0644); err != nil {
		panic(err)
	}
	idx := Index{Index: FormatIndex{FeatureFlags: CaFormatSHA512256, ChunkSizeMin: 1, ChunkSizeAvg: 1, ChunkSizeMax: 1}}
	for c := 0; c < k; c++ {
		var b []byte
		if c < l {
			b = data[c : c+1]
		} else {
			b = []byte{vU8("missing")} // the indexed blob was longer than the file
		}
		id := ChunkID(Digest.Sum(b))
		id[0] ^= vIteU8(j == c, flip, 0)
		idx.Chunks = append(idx.Chunks, IndexChunk{ID: id, Start: uint64(c), Size: 1})
	}
	return name, idx
}

// VerifC17_SmallAllPositions: every chunk may be damaged independently (symbolic flips),
// the file may be one byte short or long; n workers.
func VerifC17_SmallAllPositions() {
	ks := []int{0, 1, 2, 3}
	if vTier() > 0 {
		ks = []int{0, 1, 2, 3, 4, 5}
	}
	k := ks[vChoose("chunks", len(ks))]
	n := 1 + vChoose("workers", 2)
	delta := vChoose("delta", 3) - 1
	dir := vTempDir()
	name := dir + "/blob"
	l := k + delta
	vAssume(l >= 0)
	data := vBytes("data", l)
	os.WriteFile(name, data, 0644)
	idx := Index{Index: FormatIndex{FeatureFlags: CaFormatSHA512256, ChunkSizeMin: 1, ChunkSizeAvg: 1, ChunkSizeMax: 1}}
	clean := true
	for c := 0; c < k; c++ {
		b := []byte{0}
		if c < l {
			b = data[c : c+1]
		}
		id := ChunkID(Digest.Sum(b))
		flip := vU8("flip")
		id[0] ^= flip
		clean = vAnd(clean, flip == 0)
		idx.Chunks = append(idx.Chunks, IndexChunk{ID: id, Start: uint64(c), Size: 1})
	}
	err := VerifyIndex(context.Background(), name, idx, n, NullProgressBar{})
	vCover("VerifyIndex-returned")
	if delta != 0 {
		vAssert(err != nil, "file of a different length accepted")
	} else {
		vAssert(vImplies(clean, err == nil), "matching file rejected")
		vAssert(vImplies(vNot(clean), err != nil), "file with a chunk that does not hash to its ID accepted")
	}
}

// VerifC17_Batches: larger chunk counts so that the batching of the chunk list over the
// workers takes every shape; one chunk at a symbolic position is damaged.
func VerifC17_Batches() {
	type cfg struct{ k, n int }
	cfgs := []cfg{{10, 1}, {11, 1}, {12, 1}, {19, 1}, {20, 1}, {21, 1}, {20, 2}, {21, 2}, {23, 2}}
	if vTier() > 0 {
		cfgs = nil
		for k := 6; k <= 44; k++ {
			cfgs = append(cfgs, cfg{k, 1})
		}
		for _, k := range []int{20, 21, 39, 40, 41, 59, 60, 61} {
			cfgs = append(cfgs, cfg{k, 2})
		}
		for _, k := range []int{30, 31, 60, 61, 64} {
			cfgs = append(cfgs, cfg{k, 3})
		}
		cfgs = append(cfgs, cfg{100, 1}, cfg{119, 1}, cfg{120, 1}, cfg{130, 1}, cfg{81, 8})
	}
	c := cfgs[vChoose("config", len(cfgs))]
	vPreempt(0) // schedules are the subject of VerifC17_SmallAllPositions; here: every batch shape x every position
	j := vInt("damaged")
	vAssume(j >= 0 && j < c.k)
	flip := vU8("flip")
	vAssume(flip != 0)
	name, idx := verifC17Case(c.k, 0, j, flip)
	err := VerifyIndex(context.Background(), name, idx, c.n, NullProgressBar{})
	vCover("VerifyIndex-returned")
	vAssert(err != nil, "a damaged chunk was not noticed (batching skipped it?)")
}

// VerifC17_Cancelled: the "only if" direction under cancellation - whenever the context is
// cancelled (before the start, between any two batch hand-offs, after the last one), a file
// with a damaged chunk at any position is never reported as matching.
func VerifC17_Cancelled() {
	k := 1 + vChoose("chunks", 3)
	n := 1 + vChoose("workers", 2)
	name, _, idx, _ := verifConcreteBlob(k)
	clean := true // which chunks are damaged, and how, is the solver's choice
	for c := range idx.Chunks {
		flip := vU8("flip")
		idx.Chunks[c].ID[0] ^= flip
		clean = vAnd(clean, flip == 0)
	}
	vAssume(vNot(clean))
	ctx, cancel := verifCancelLater()
	defer cancel()
	err := VerifyIndex(ctx, name, idx, n, NullProgressBar{})
	vCover("returned")
	vAssert(err != nil, "a file with a damaged chunk was reported as matching after a cancellation")
}
