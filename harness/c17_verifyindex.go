package desync

// C17: verify-index accepts a file if and only if it matches the index.

import (
	"context"
	"os"
)

// verifC17Case builds a file of k one-byte chunks (+delta bytes) and an index over it.  The
// contents follow a pattern (0: all chunks distinct, 1: equal neighbours in pairs, 2: all chunks
// equal - indexes of repetitive files carry the same ID many times).  Chunk j is damaged either
// in the index (first ID byte xor-ed with flip) or in the file (its byte xor-ed with flip
// after indexing).
func verifC17Case(k, delta int, j int, flip uint8, pattern int, inFile bool) (string, Index) {
	dir := vTempDir()
	name := dir + "/blob"
	l := k + delta
	if l < 0 {
		l = 0
	}
	// concrete contents: the batching under test does not depend on them, and concrete
	// digests keep the uninterpreted hash (and its pairwise collision axioms) out of the queries
	orig := make([]byte, l)
	for c := range orig {
		switch pattern {
		case 0:
			orig[c] = byte(c*7 + 1)
		case 1:
			orig[c] = byte(c/2*7 + 1)
		default:
			orig[c] = 0x55
		}
	}
	idx := Index{Index: FormatIndex{FeatureFlags: CaFormatSHA512256, ChunkSizeMin: 1, ChunkSizeAvg: 1, ChunkSizeMax: 1}}
	for c := 0; c < k; c++ {
		var b []byte
		if c < l {
			b = orig[c : c+1]
		} else {
			b = []byte{vU8("missing")} // the indexed blob was longer than the file
		}
		id := ChunkID(Digest.Sum(b))
		if !inFile {
			id[0] ^= vIteU8(j == c, flip, 0)
		}
		idx.Chunks = append(idx.Chunks, IndexChunk{ID: id, Start: uint64(c), Size: 1})
	}
	data := append([]byte(nil), orig...)
	if inFile && j < len(data) {
		data[j] ^= flip // j is concrete in this mode (see VerifC17_Batches): one symbolic byte, the rest of the file stays concrete
	}
	if err := os.WriteFile(name, data, 0644); err != nil {
		panic(err)
	}
	return name, idx
}

// VerifC17_SmallAllPositions: every chunk may be damaged independently (symbolic flips),
// the file may be one byte short or long; n workers.
func VerifC17_SmallAllPositions() {
	ks := []int{0, 1, 2, 3}
	if vTier() > 0 {
		ks = []int{0, 1, 2, 3, 4, 5}
	}
	k := ks[vChoose("chunks", len(ks))]
	n := 1 + vChoose("workers", 2)
	delta := vChoose("delta", 3) - 1
	dir := vTempDir()
	name := dir + "/blob"
	l := k + delta
	vAssume(l >= 0)
	data := vBytes("data", l)
	os.WriteFile(name, data, 0644)
	idx := Index{Index: FormatIndex{FeatureFlags: CaFormatSHA512256, ChunkSizeMin: 1, ChunkSizeAvg: 1, ChunkSizeMax: 1}}
	clean := true
	for c := 0; c < k; c++ {
		b := []byte{0}
		if c < l {
			b = data[c : c+1]
		}
		id := ChunkID(Digest.Sum(b))
		flip := vU8("flip")
		id[0] ^= flip
		clean = vAnd(clean, flip == 0)
		idx.Chunks = append(idx.Chunks, IndexChunk{ID: id, Start: uint64(c), Size: 1})
	}
	err := VerifyIndex(context.Background(), name, idx, n, NullProgressBar{})
	vCover("VerifyIndex-returned")
	if delta != 0 {
		vAssert(err != nil, "file of a different length accepted")
	} else {
		vAssert(vImplies(clean, err == nil), "matching file rejected")
		vAssert(vImplies(vNot(clean), err != nil), "file with a chunk that does not hash to its ID accepted")
	}
}

// VerifC17_Batches: larger chunk counts so that the batching of the chunk list over the
// workers takes every shape; one chunk at a symbolic position is damaged.
func VerifC17_Batches() {
	type cfg struct{ k, n int }
	cfgs := []cfg{{10, 1}, {11, 1}, {12, 1}, {19, 1}, {20, 1}, {21, 1}, {20, 2}, {21, 2}, {23, 2}, {1012, 1}} // the last: batches of more than 100 chunks
	if vTier() > 0 {
		// (the full range K=6..44 with n up to 8 did not finish within the 900 s budget)
		cfgs = append(cfgs, cfg{29, 1}, cfg{30, 1}, cfg{31, 1}, cfg{40, 1}, cfg{41, 1})
	}
	c := cfgs[vChoose("config", len(cfgs))]
	vPreempt(0) // schedules are the subject of VerifC17_SmallAllPositions; here: every batch shape x every position
	inFile := c.k > 200 || vChoose("damage-in-file", 2) == 1 // the big index only with a damaged file byte
	pattern := 0
	var j int
	if inFile {
		vSchedFixed(true)                       // which worker takes which batch does not change what a batch checks
		pattern = vChoose("content-pattern", 3) // repetitive files: the same ID several times in one batch
		if c.k > 200 {
			// a big index: positions around the batch boundaries and deep inside a batch
			pos := []int{0, 1, 99, 100, 101, 102, 150, 201, 202, 203, c.k - 2, c.k - 1}
			j = pos[vChoose("damaged-position", len(pos))]
		} else {
			j = vChoose("damaged-position", c.k) // every position, one by one
		}
	} else {
		j = vInt("damaged")
		vAssume(j >= 0 && j < c.k)
	}
	flip := vU8("flip")
	vAssume(flip != 0)
	name, idx := verifC17Case(c.k, 0, j, flip, pattern, inFile)
	err := VerifyIndex(context.Background(), name, idx, c.n, NullProgressBar{})
	vCover("VerifyIndex-returned")
	vAssert(err != nil, "a damaged chunk was not noticed (batching skipped it?)")
}

// VerifC17_Cancelled: the "only if" direction under cancellation - whenever the context is
// cancelled (before the start, between any two batch hand-offs, after the last one), a file
// with a damaged chunk at any position is never reported as matching.
func VerifC17_Cancelled() {
	k := 1 + vChoose("chunks", 3)
	n := 1 + vChoose("workers", 2)
	name, _, idx, _ := verifConcreteBlob(k)
	clean := true // which chunks are damaged, and how, is the solver's choice
	for c := range idx.Chunks {
		flip := vU8("flip")
		idx.Chunks[c].ID[0] ^= flip
		clean = vAnd(clean, flip == 0)
	}
	vAssume(vNot(clean))
	ctx, cancel := verifCancelLater()
	defer cancel()
	err := VerifyIndex(ctx, name, idx, n, NullProgressBar{})
	vCover("returned")
	vAssert(err != nil, "a file with a damaged chunk was reported as matching after a cancellation")
}

// VerifC17_FileModes: the length rule does not depend on the file's permission bits: a regular
// file with set-uid, set-gid or sticky bit that is one byte short or long is rejected like any
// other (only block devices are exempt from the length comparison).
func VerifC17_FileModes() {
	vSchedFixed(true)
	modes := []os.FileMode{0644, 0755 | os.ModeSetuid, 0755 | os.ModeSetgid, 0644 | os.ModeSticky, 0}
	mode := modes[vChoose("mode", len(modes))]
	delta := []int{-1, 0, 1}[vChoose("delta", 3)]
	name, idx := verifC17Case(2, delta, -1, 0, 0, false)
	vAssert(os.Chmod(name, mode) == nil, "chmod")
	err := VerifyIndex(context.Background(), name, idx, 1+vChoose("workers", 2), NullProgressBar{})
	vCover("VerifyIndex-returned")
	if delta != 0 {
		vAssert(err != nil, "a file of a different length was accepted because of its permission bits")
	} else if mode != 0 {
		vAssert(err == nil, "matching file rejected")
	}
}
