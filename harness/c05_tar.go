package desync

// C05: tar then untar reproduces the directory tree.

import (
	gnutar "archive/tar"
	"bytes"
	"context"
	"io/ioutil"
	"os"
	"syscall"
	"time"

	"github.com/pkg/xattr"
)

// VerifC05_Mode: st_mode <-> os.FileMode conversions are mutually inverse on every valid mode.
func VerifC05_Mode() {
	m := vU32("st_mode")
	vAssume(m < 1<<16)
	t := m & syscall.S_IFMT
	vAssume(vOr(vOr(vOr(t == syscall.S_IFREG, t == syscall.S_IFDIR), vOr(t == syscall.S_IFLNK, t == syscall.S_IFBLK)),
		vOr(vOr(t == syscall.S_IFCHR, t == syscall.S_IFIFO), t == syscall.S_IFSOCK)))
	fm := StatModeToFilemode(m)
	back := FilemodeToStatMode(fm)
	vCover("converted")
	vAssert(back == m, "FilemodeToStatMode(StatModeToFilemode(m)) != m (type, permission or set-id/sticky bits lost)")
	vAssert(fm.Perm() == os.FileMode(m&0777), "permission bits changed")
	vAssert((fm&os.ModeSetuid != 0) == (m&syscall.S_ISUID != 0), "setuid bit lost")
	vAssert((fm&os.ModeSetgid != 0) == (m&syscall.S_ISGID != 0), "setgid bit lost")
	vAssert((fm&os.ModeSticky != 0) == (m&syscall.S_ISVTX != 0), "sticky bit lost")
}

// VerifC05_Dev: device numbers survive mkdev (untar) and the major/minor extraction (tar).
func VerifC05_Dev() {
	major, minor := vU64("major"), vU64("minor")
	vAssume(major < 1<<12 && minor < 1<<20) // Linux dev_t as produced by the extraction in LocalFS.Next
	rdev := mkdev(major, minor)
	gotMajor := uint64((rdev >> 8) & 0xfff)
	gotMinor := (uint64(rdev) % 256) | ((uint64(rdev) & 0xfff00000) >> 12)
	vCover("dev")
	vAssert(gotMajor == major && gotMinor == minor, "device numbers do not survive the round trip")
}

type verifEntrySpec struct {
	name   string
	kind   int // 0 file 1 symlink 2 device 3 dir
	perm   uint32
	uid    int
	gid    int
	mtime  int64
	data   []byte
	target string
	major  uint64
	minor  uint64
	xkey   string
	xval   []byte
}

var verifPerms = []uint32{0644, 04755, 01777, 02750}

// verifConcreteInstants makes verifSymEntry pick modification times from a concrete list.
var verifConcreteInstants bool

func verifMkEntry(dir string, e verifEntrySpec) {
	p := dir + "/" + e.name
	switch e.kind {
	case 0:
		os.WriteFile(p, e.data, 0600)
	case 1:
		os.Symlink(e.target, p)
	case 2:
		syscall.Mknod(p, syscall.S_IFCHR|0600, int(mkdev(e.major, e.minor)))
	case 3:
		os.Mkdir(p, 0700)
	}
	os.Lchown(p, e.uid, e.gid)
	if e.xkey != "" {
		xattr.LSet(p, e.xkey, e.xval)
	}
	if e.kind != 1 {
		syscall.Chmod(p, e.perm)
		os.Chtimes(p, time.Unix(0, e.mtime), time.Unix(0, e.mtime))
	}
}

func verifSymEntry(name string, kind int) verifEntrySpec {
	e := verifEntrySpec{name: name, kind: kind, perm: verifPerms[vChoose("perm", len(verifPerms))]}
	e.uid, e.gid = vInt("uid"), vInt("gid")
	vAssume(e.uid >= 0 && e.uid < 1<<31 && e.gid >= 0 && e.gid < 1<<31)
	if verifConcreteInstants {
		// concrete instants: before 1970 (negative nanosecond count), a present-day one with a
		// nanosecond part, one second after the epoch, and instants within the first / the last
		// second around the epoch (whole-second arithmetic would take them for "no time")
		e.mtime = []int64{-5000000123, 1600000000123456789, 1000000000, 500000000, 1, -1, -999999999}[vChoose("instant", 7)]
	} else {
		// any instant, kept symbolic (abstract time.Time: no 10^9 division on the way)
		e.mtime = vI64("mtime")
		vAssume(e.mtime != 0) // mtime 0 means "do not set" in this code base
	}
	switch kind {
	case 0:
		e.data = vBytes("content", vChoose("size", 3))
		if vChoose("xattr", 2) == 1 {
			e.xkey, e.xval = "user.k", vBytes("xattr-value", 2) // any bytes, NUL included: only the first NUL of the element separates key and value
		}
	case 1:
		e.target = vStr("target", 2)
		for k := 0; k < len(e.target); k++ {
			vAssume(e.target[k] != 0)
		}
	case 2:
		e.major, e.minor = vU64("major"), vU64("minor")
		vAssume(e.major < 1<<12 && e.minor < 1<<20)
	}
	return e
}

func verifCompareTrees(a, b string, names []string) {
	for _, n := range names {
		sa, ea := os.Lstat(a + "/" + n)
		sb, eb := os.Lstat(b + "/" + n)
		vAssert(ea == nil, "source entry vanished")
		vAssert(eb == nil, "entry missing after unpacking")
		if ea != nil || eb != nil {
			continue
		}
		vAssert(sa.Mode() == sb.Mode(), "type, permission or set-id/sticky bits differ after unpacking")
		ta, tb := sa.Sys().(*syscall.Stat_t), sb.Sys().(*syscall.Stat_t)
		vAssert(ta.Uid == tb.Uid && ta.Gid == tb.Gid, "owner differs after unpacking")
		if sa.Mode()&os.ModeSymlink == 0 {
			vAssert(sa.ModTime().Equal(sb.ModTime()), "modification time differs after unpacking")
		}
		switch {
		case sa.Mode().IsRegular():
			ca, _ := os.ReadFile(a + "/" + n)
			cb, _ := os.ReadFile(b + "/" + n)
			vAssert(vEqBytes(ca, cb), "file content differs after unpacking")
		case sa.Mode()&os.ModeSymlink != 0:
			la, _ := os.Readlink(a + "/" + n)
			lb, _ := os.Readlink(b + "/" + n)
			vAssert(la == lb, "symlink target differs after unpacking")
		case sa.Mode()&os.ModeDevice != 0:
			vAssert(ta.Rdev == tb.Rdev, "device numbers differ after unpacking")
		}
		ka, _ := xattr.LList(a + "/" + n)
		kb, _ := xattr.LList(b + "/" + n)
		vAssert(len(ka) == len(kb), "extended attributes differ after unpacking")
		for _, k := range ka {
			va, _ := xattr.LGet(a+"/"+n, k)
			vb, err := xattr.LGet(b+"/"+n, k)
			vAssert(err == nil && vEqBytes(va, vb), "extended attribute value differs after unpacking")
		}
	}
}

// VerifC05_DiskRoundTrip: a tree with symbolic metadata and contents on the model file
// system is packed with Tar(LocalFS) and unpacked with UnTar(LocalFS); both trees are compared.
func VerifC05_DiskRoundTrip() { verifDiskRoundTrip() }

// VerifC05_DiskRoundTripInstants: the same with concrete modification times (before 1970,
// present day with nanoseconds), single-entry trees.
func VerifC05_DiskRoundTripInstants() {
	verifConcreteInstants = true
	verifDiskRoundTrip()
}

func verifDiskRoundTrip() {
	vSchedFixed(true) // LocalFS feeds entries through a goroutine; its order is not the subject
	vPreempt(0)
	root := vTempDir()
	src, dst := root+"/src", root+"/dst"
	os.Mkdir(src, 0755)
	os.Mkdir(dst, 0755)
	var names []string
	shape := vChoose("shape", 5)
	if verifConcreteInstants {
		vAssume(shape != 3)
	}
	switch shape {
	case 0:
		verifMkEntry(src, verifSymEntry("f", 0))
		names = []string{"f"}
	case 1:
		verifMkEntry(src, verifSymEntry("l", 1))
		names = []string{"l"}
	case 2:
		verifMkEntry(src, verifSymEntry("d", 2))
		names = []string{"d"}
	case 3: // nested directory with a file, followed by a file in the parent
		verifMkEntry(src, verifSymEntry("s", 3))
		verifMkEntry(src+"/s", verifSymEntry("g", 0))
		verifMkEntry(src, verifSymEntry("z", 0))
		names = []string{"s", "s/g", "z"}
	case 4: // empty directory
		verifMkEntry(src, verifSymEntry("e", 3))
		names = []string{"e"}
	}
	var archive bytes.Buffer
	err := Tar(context.Background(), &archive, NewLocalFS(src, LocalFSOptions{}))
	vAssert(err == nil, "Tar failed")
	vCover("packed")
	err = UnTar(context.Background(), bytes.NewReader(archive.Bytes()), NewLocalFS(dst, LocalFSOptions{}))
	vAssert(err == nil, "UnTar failed on an archive this code just wrote")
	vCover("unpacked")
	verifCompareTrees(src, dst, names)
	// packing the same tree again gives the same bytes
	var again bytes.Buffer
	Tar(context.Background(), &again, NewLocalFS(src, LocalFSOptions{}))
	vAssert(vEqBytes(archive.Bytes(), again.Bytes()), "packing the same tree twice gives different archives")
}

// VerifC05_IndexDigest: tar-to-index / chunk streams under either digest produce an index
// that the same configuration reads back.
func VerifC05_IndexDigest() {
	if vChoose("digest", 2) == 1 {
		Digest = SHA256{}
	} else {
		Digest = SHA512256{}
	}
	data := verifByteStream()
	c, _ := NewChunker(bytes.NewReader(data), 48, 64, 72)
	st := &verifStore{}
	idx, err := ChunkStream(context.Background(), c, st, 1)
	vAssert(err == nil, "ChunkStream failed")
	var b bytes.Buffer
	idx.WriteTo(&b)
	back, err := IndexFromReader(bytes.NewReader(b.Bytes()))
	vCover("index-written")
	vAssert(err == nil, "index made by ChunkStream is rejected on re-read under the same digest")
	if err == nil {
		vAssert(len(back.Chunks) == len(idx.Chunks), "chunk table changed")
	}
	_, is512 := Digest.(SHA512256)
	vAssert((idx.Index.FeatureFlags&CaFormatSHA512256 != 0) == is512, "digest flag of the produced index does not match the configured digest")
}

func verifGnuTarHeader(kind int, perm uint32) (*gnutar.Header, error) {
	var buf bytes.Buffer
	w := NewTarWriter(&buf)
	mode := StatModeToFilemode(perm)
	mtime := time.Unix(1600000000, 0)
	var err error
	switch kind {
	case 0:
		err = w.CreateFile(NodeFile{Name: "f", Mode: mode, UID: 7, GID: 8, MTime: mtime, Size: 2, Data: bytes.NewReader([]byte("hi"))})
	case 1:
		err = w.CreateDir(NodeDirectory{Name: "d", Mode: mode | os.ModeDir, UID: 7, GID: 8, MTime: mtime})
	case 2:
		err = w.CreateDevice(NodeDevice{Name: "c", Mode: mode | os.ModeDevice | os.ModeCharDevice, UID: 7, GID: 8, MTime: mtime, Major: 4, Minor: 64})
	case 3:
		err = w.CreateDevice(NodeDevice{Name: "b", Mode: mode | os.ModeDevice, UID: 7, GID: 8, MTime: mtime, Major: 8, Minor: 1})
	case 4:
		err = w.CreateSymlink(NodeSymlink{Name: "l", Mode: os.ModeSymlink | 0777, UID: 7, GID: 8, MTime: mtime, Target: "t"})
	}
	vAssert(err == nil, "TarWriter failed")
	w.Close()
	r := gnutar.NewReader(bytes.NewReader(buf.Bytes()))
	return r.Next()
}

// VerifC05_GnuTarMode: the GNU tar output carries the unix permission and set-id/sticky
// bits in its mode field (read back with archive/tar's own reader).
func VerifC05_GnuTarMode() {
	perm := verifPerms[vChoose("perm", len(verifPerms))]
	kind := vChoose("kind", 5)
	h, err := verifGnuTarHeader(kind, perm)
	vCover("header-read-back")
	vAssert(err == nil, "archive/tar cannot read the produced stream")
	if err != nil {
		return
	}
	want := int64(perm & 07777)
	if kind == 4 {
		want = 0777
	}
	vAssert(h.Mode&07777 == want, "tar header does not carry the unix permission and set-id/sticky bits")
	vAssert(h.Mode&^07777 == 0, "tar header mode field carries non-unix bits")
}

// VerifC05_GnuTarNodes: entry type, owner, link target and device numbers in the GNU tar output.
func VerifC05_GnuTarNodes() {
	kind := vChoose("kind", 5)
	h, err := verifGnuTarHeader(kind, 0644)
	vCover("header-read-back")
	vAssert(err == nil, "archive/tar cannot read the produced stream")
	if err != nil {
		return
	}
	vAssert(h.Uid == 7 && h.Gid == 8, "owner lost")
	switch kind {
	case 0:
		vAssert(h.Typeflag == gnutar.TypeReg && h.Size == 2, "file type or size")
	case 1:
		vAssert(h.Typeflag == gnutar.TypeDir, "directory type")
	case 2:
		vAssert(h.Devmajor == 4 && h.Devminor == 64, "device numbers lost")
		vAssert(h.Typeflag == gnutar.TypeChar, "character device written with another type")
	case 3:
		vAssert(h.Devmajor == 8 && h.Devminor == 1, "device numbers lost")
		vAssert(h.Typeflag == gnutar.TypeBlock, "block device written with another type")
	case 4:
		vAssert(h.Typeflag == gnutar.TypeSymlink && h.Linkname == "t", "symlink type or target")
	}
}

// verifRecFS records what UnTar asks a file system to create.
type verifRecFS struct {
	dirs  []NodeDirectory
	files []NodeFile
	links []NodeSymlink
	devs  []NodeDevice
	data  [][]byte
}

func (r *verifRecFS) CreateDir(n NodeDirectory) error { r.dirs = append(r.dirs, n); return nil }
func (r *verifRecFS) CreateFile(n NodeFile) error {
	b, err := ioutil.ReadAll(n.Data)
	r.files = append(r.files, n)
	r.data = append(r.data, b)
	return err
}
func (r *verifRecFS) CreateSymlink(n NodeSymlink) error { r.links = append(r.links, n); return nil }
func (r *verifRecFS) CreateDevice(n NodeDevice) error   { r.devs = append(r.devs, n); return nil }

// VerifC05_Codec: the archive codec alone (no file system): nodes handed to Tar by a
// FilesystemReader come out of UnTar with the same metadata, for symbolic and for
// concrete (pre-1970, present-day) modification times.
func VerifC05_Codec() {
	var mt time.Time
	switch vChoose("instant", 3) {
	case 0:
		mt = time.Unix(0, vI64("mtime"))
	case 1:
		mt = time.Unix(0, -5000000123)
	case 2:
		mt = time.Unix(0, 1600000000123456789)
	}
	uid, gid := vInt("uid"), vInt("gid")
	vAssume(uid >= 0 && gid >= 0)
	perm := verifPerms[vChoose("perm", len(verifPerms))]
	root := &File{Name: ".", Path: ".", Mode: os.ModeDir | 0755, Uid: 1, Gid: 2, ModTime: mt}
	content := vBytes("content", 2)
	f := &File{Name: "f", Path: "f", Mode: StatModeToFilemode(perm), Uid: uid, Gid: gid, ModTime: mt, Size: 2,
		Data: ioutil.NopCloser(bytes.NewReader(content)), Xattrs: map[string]string{"user.k": vStr("xattr-value", 2)}}
	l := &File{Name: "l", Path: "l", Mode: os.ModeSymlink | 0777, Uid: uid, Gid: gid, ModTime: mt, LinkTarget: "a/b"}
	d := &File{Name: "n", Path: "n", Mode: os.ModeDevice | os.ModeCharDevice | 0600, Uid: uid, Gid: gid, ModTime: mt, DevMajor: vU64("major"), DevMinor: vU64("minor")}
	var archive bytes.Buffer
	err := Tar(context.Background(), &archive, &verifTreeReader{files: []*File{root, f, l, d}})
	vAssert(err == nil, "Tar failed")
	rec := &verifRecFS{}
	err = UnTar(context.Background(), bytes.NewReader(archive.Bytes()), rec)
	vCover("decoded")
	vAssert(err == nil, "UnTar failed on an archive this code just wrote")
	vAssert(len(rec.dirs) == 1 && len(rec.files) == 1 && len(rec.links) == 1 && len(rec.devs) == 1, "nodes lost or invented")
	if len(rec.dirs) != 1 || len(rec.files) != 1 || len(rec.links) != 1 || len(rec.devs) != 1 {
		return
	}
	g := rec.files[0]
	vAssert(g.Name == "f" && g.Mode == f.Mode && g.UID == uid && g.GID == gid, "file path, mode or owner changed")
	vAssert(g.MTime.Equal(mt), "file modification time changed")
	vAssert(vEqBytes(rec.data[0], content) && g.Size == 2, "file content or size changed")
	vAssert(len(g.Xattrs) == 1 && g.Xattrs["user.k"] == f.Xattrs["user.k"], "extended attributes changed")
	vAssert(rec.dirs[0].MTime.Equal(mt) && rec.dirs[0].Mode == root.Mode, "directory metadata changed")
	vAssert(rec.links[0].Target == "a/b" && rec.links[0].Name == "l" && rec.links[0].UID == uid, "symlink changed")
	vAssert(rec.devs[0].Major == d.DevMajor && rec.devs[0].Minor == d.DevMinor && rec.devs[0].Mode == d.Mode && rec.devs[0].MTime.Equal(mt), "device node changed")
}
