package desync

// C19: decoders survive arbitrary input (no panic, no allocation out of
// proportion to the input, malformed input yields an error).
//
// Every run-time check of the Go code (index, slice, make, nil, division) is a
// solver obligation of the engine; vInput arms the allocation monitor
// (a make/append of more than 2*len(input)+64KiB bytes is a violation).

import (
	"bytes"
	"encoding/binary"
)

func verifLE64(v uint64) []byte {
	b := make([]byte, 8)
	binary.LittleEndian.PutUint64(b, v)
	return b
}

var verifC19Types = []uint64{CaFormatUser, CaFormatGroup, CaFormatXAttr, CaFormatSELinux, CaFormatFilename,
	CaFormatSymlink, CaFormatFCaps, CaFormatACLUser, CaFormatACLGroup, CaFormatGoodbye, CaFormatPayload,
	CaFormatEntry, CaFormatDevice, CaFormatACLGroupObj, CaFormatACLDefault, CaFormatIndex, CaFormatTable}

// verifSizeWindow restricts a size field to the regions where the arithmetic
// changes behaviour (below/around the header size and the input length, around
// 2^63 where the int64 conversion flips sign, and the top of the range where
// size-16 wraps).  Quick tier only; the thorough tier leaves the field free.
func verifSizeWindow(size uint64) bool {
	return vOr(size < 112, vOr(vAnd(size >= 1<<63-24, size < 1<<63+24), size >= ^uint64(0)-40))
}

// VerifC19_ElementSize: one element of every type with a symbolic size field,
// followed by nb arbitrary bytes and EOF.
func VerifC19_ElementSize() {
	vConcCap(600)
	typ := verifC19Types[vChoose("type", len(verifC19Types))]
	nb := []int{0, 1, 8, 33}[vChoose("bodylen", 4)]
	size := vU64("size")
	if vTier() == 0 {
		vAssume(verifSizeWindow(size))
	}
	body := vBytes("body", nb)
	in := append(append(verifLE64(size), verifLE64(typ)...), body...)
	vInput(len(in))
	d := NewFormatDecoder(bytes.NewReader(in))
	e, err := d.Next()
	vCover("decoder-returned")
	if err == nil {
		vCover("element-accepted")
		vAssert(e != nil, "nil error comes with an element")
		_, isPayload := e.(FormatPayload) // payload content is read lazily by the caller
		_, isTable := e.(FormatTable)     // the table's size field is MAX_UINT64 by definition
		if !isPayload && !isTable {
			vAssert(size <= uint64(len(in)), "element accepted although the input is shorter than its size field")
			vAssert(size >= 16, "element accepted with a size smaller than its header")
		}
	}
}

// VerifC19_Stream: arbitrary bytes (symbolic type and size) through FormatDecoder.Next.
func VerifC19_Stream() {
	vConcCap(600)
	lens := []int{0, 7, 15, 16, 24, 48}
	if vTier() > 0 {
		lens = []int{0, 7, 15, 16, 17, 24, 48, 72, 96}
	}
	n := lens[vChoose("len", len(lens))]
	in := vBytes("in", n)
	vInput(len(in))
	if n >= 8 {
		vAssume(verifSizeWindow(binary.LittleEndian.Uint64(in)))
	}
	d := NewFormatDecoder(bytes.NewReader(in))
	e, err := d.Next()
	vCover("next-returned")
	if n < 16 {
		vAssert(e == nil, "element produced from less than a header")
	}
	_ = err
}

// VerifC19_Index: arbitrary bytes behind an index header / table header as an index file.
func VerifC19_Index() {
	vConcCap(600)
	lens := []int{0, 16, 47, 48, 64, 72, 104, 120, 152}
	if vTier() > 0 {
		lens = append(lens, 112, 144, 184, 192)
	}
	n := lens[vChoose("len", len(lens))]
	in := vBytes("in", n)
	vInput(len(in))
	// element types are fixed so that the index/table parsers are the subject
	// (other element types are the subject of the two harnesses above)
	if n >= 16 {
		copy(in[8:], verifLE64(CaFormatIndex))
		vAssume(verifSizeWindow(binary.LittleEndian.Uint64(in)))
	}
	if n >= 64 {
		copy(in[56:], verifLE64(CaFormatTable))
	}
	idx, err := IndexFromReader(bytes.NewReader(in))
	vCover("IndexFromReader-returned")
	if err == nil {
		vCover("index-accepted")
		// an accepted table has all its rows and its tail inside the input
		vAssert(48+16+len(idx.Chunks)*40+40 <= n, "accepted index is longer than the input")
		for _, c := range idx.Chunks {
			vAssert(c.Size <= idx.Index.ChunkSizeMax, "chunk larger than the declared maximum accepted")
		}
	}
}

// VerifC19_Protocol: arbitrary bytes as a casync protocol message.
func VerifC19_Protocol() {
	vConcCap(600)
	n := []int{0, 7, 8, 15, 16, 24, 40}[vChoose("len", 7)]
	in := vBytes("in", n)
	vInput(len(in))
	p := NewProtocol(bytes.NewReader(in), &bytes.Buffer{})
	m, err := p.ReadMessage()
	vCover("ReadMessage-returned")
	if err == nil {
		vCover("message-accepted")
		vAssert(len(m.Body)+16 <= n, "message body longer than the input")
	}
}
