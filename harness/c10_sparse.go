package desync

// C10: copy-on-read sparse files return the blob's bytes or an error, never stale zeros.

import (
	"io"
	"os"
	"sync"
)

func verifSparseRead(h *SparseFileHandle, blob []byte, off int64, l int, what string) (failed bool) {
	b := make([]byte, l)
	for c := range b {
		b[c] = 0xEE
	}
	n, err := h.ReadAt(b, off)
	vCover("sparse-read")
	if err != nil && err != io.EOF {
		return true // an error is always acceptable
	}
	want := int64(len(blob)) - off
	if want > int64(l) {
		want = int64(l)
	}
	if want < 0 {
		want = 0
	}
	vAssert(int64(n) == want, what+": ReadAt returned a wrong count without an error")
	ok := true
	for c := 0; c < n && int64(c) < want; c++ {
		ok = vAnd(ok, b[c] == blob[off+int64(c)])
	}
	vAssert(ok, what+": ReadAt returned bytes that differ from the blob (stale zeros?)")
	return false
}

// VerifC10_Reads: a history of reads with one transient store failure.
func VerifC10_Reads() {
	maxK, nreads := 2, 2
	if vTier() > 0 {
		maxK, nreads = 3, 2 // 3 chunks with 3 reads did not finish within the 900 s budget
	}
	k := 1 + vChoose("chunks", maxK)
	blob, idx, st := verifBlobIndex(k, 2)
	st.useAt, st.failHasAt, st.failPutAt = true, -1, -1
	st.failGetAt = vInt("fail-get-at")
	vAssume(st.failGetAt >= -1 && st.failGetAt < 3)
	dir := vTempDir()
	sf, err := NewSparseFile(dir+"/cache", idx, st, SparseFileOptions{})
	vAssert(err == nil, "NewSparseFile failed on a fresh directory")
	h, err := sf.Open()
	vAssert(err == nil, "Open failed")
	length := int64(len(blob))
	for q := 0; q < nreads; q++ {
		off := vI64("offset")
		vAssume(off >= 0 && off <= length)
		l := 1 + vChoose("len", 3)
		verifSparseRead(h, blob, off, l, "read")
	}
}

// VerifC10_Restart: save state, reopen with the same cache and state files.
func VerifC10_Restart() {
	k := 2
	blob, idx, st := verifBlobIndex(k, 2)
	dir := vTempDir()
	opt := SparseFileOptions{StateSaveFile: dir + "/state"}
	sf, err := NewSparseFile(dir+"/cache", idx, st, opt)
	vAssert(err == nil, "NewSparseFile failed")
	h, _ := sf.Open()
	length := int64(len(blob))
	off := vI64("offset")
	vAssume(off >= 0 && off < length)
	verifSparseRead(h, blob, off, 1, "first run")
	vAssert(sf.WriteState() == nil, "WriteState failed")
	h.Close()
	before := st.gets
	kind := vChoose("restart-kind", 7)
	switch kind {
	case 1: // state file of the wrong length: must be ignored, not trusted
		os.WriteFile(dir+"/state", []byte{0xff, 0xff, 0xff}, 0644)
	case 2: // state lost
		os.Remove(dir + "/state")
	case 3: // cache file lost, state survived: the state says "done" for data that is gone
		os.Remove(dir + "/cache")
	case 4: // cache file cut short
		os.Truncate(dir+"/cache", length-1)
	case 5: // cache file emptied
		os.Truncate(dir+"/cache", 0)
	case 6: // cache file grown
		os.Truncate(dir+"/cache", length+3)
	}
	sf2, err := NewSparseFile(dir+"/cache", idx, st, opt)
	vAssert(err == nil, "NewSparseFile failed on restart")
	h2, _ := sf2.Open()
	if kind == 0 {
		// same state: the chunk loaded before the restart is served from the cache file
		verifSparseRead(h2, blob, off, 1, "after restart, same range")
		vAssert(st.gets == before, "a chunk marked done in the saved state was fetched again after the restart")
	}
	off2 := vI64("offset")
	vAssume(off2 >= 0 && off2 < length)
	verifSparseRead(h2, blob, off2, 1+vChoose("len", 2), "after restart")
	vCover("restarted")
}

// VerifC10_Concurrent: two readers of overlapping ranges.
func VerifC10_Concurrent() {
	vPreempt(2)
	blob, idx, st := verifBlobIndex(2, 1)
	st.yield = true
	st.useAt, st.failHasAt, st.failPutAt = true, -1, -1
	st.failGetAt = vInt("fail-get-at")
	vAssume(st.failGetAt >= -1 && st.failGetAt < 2)
	dir := vTempDir()
	sf, err := NewSparseFile(dir+"/cache", idx, st, SparseFileOptions{})
	vAssert(err == nil, "NewSparseFile failed")
	var wg sync.WaitGroup
	for r := 0; r < 2; r++ {
		wg.Add(1)
		go func() {
			defer wg.Done()
			h, _ := sf.Open()
			verifSparseRead(h, blob, 0, 2, "concurrent read")
			verifSparseRead(h, blob, 0, 2, "second concurrent read")
		}()
	}
	wg.Wait()
}

// VerifC10_Preload: a start that pre-loads the chunks named by an init state file (solver-chosen
// bitmap, background workers) over a store whose k-th GetChunk fails; the state is saved while
// pre-loading may still be pending or have failed; after a restart that reuses cache file and
// saved state every read returns the blob's bytes or an error - never unpopulated zeros.
func VerifC10_Preload() {
	vPreempt(1)
	blob, idx, st := verifBlobIndex(2, 2)
	st.yield = true
	st.useAt, st.failHasAt, st.failPutAt = true, -1, -1
	st.failGetAt = vInt("fail-get-at")
	vAssume(st.failGetAt >= -1 && st.failGetAt < 2)
	dir := vTempDir()
	os.WriteFile(dir+"/init", []byte{byte(vChoose("init-bitmap", 4))}, 0644) // which of the two chunks to pre-load
	opt := SparseFileOptions{StateSaveFile: dir + "/state", StateInitFile: dir + "/init", StateInitConcurrency: 1}
	sf, err := NewSparseFile(dir+"/cache", idx, st, opt)
	vAssert(err == nil, "NewSparseFile failed")
	length := int64(len(blob))
	vAssert(sf.WriteState() == nil, "WriteState failed")
	vCover("state-saved")
	// restart with the same cache file and saved state, no init file this time
	sf2, err := NewSparseFile(dir+"/cache", idx, st, SparseFileOptions{StateSaveFile: dir + "/state"})
	vAssert(err == nil, "NewSparseFile failed on restart")
	h2, _ := sf2.Open()
	verifSparseRead(h2, blob, 0, int(length), "after restart")
	vCover("restarted")
}

// VerifC10_EmptyObject: the sparse file over a real local store opened without verification
// whose object for a chunk is transiently empty (a zero-length file: interrupted copy, full
// disk): the read fails or returns the blob's bytes - an empty object is not "zero bytes of
// data" - and once the store is healthy again the same range is served correctly.
func VerifC10_EmptyObject() {
	unc := vChoose("uncompressed", 2) == 1
	base := vTempDir()
	ls, _ := NewLocalStore(base, StoreOptions{Uncompressed: unc, SkipVerify: true})
	blob := []byte{0x61, byte(0x62 + vChoose("second-byte", 2))} // concrete: chunk IDs are file names here
	idx := Index{Index: FormatIndex{FeatureFlags: CaFormatSHA512256, ChunkSizeMin: 1, ChunkSizeAvg: 1, ChunkSizeMax: 1}}
	var paths []string
	var objects [][]byte
	for c := 0; c < 2; c++ {
		ch := NewChunk(blob[c : c+1])
		vAssert(ls.StoreChunk(ch) == nil, "store setup")
		idx.Chunks = append(idx.Chunks, IndexChunk{ID: ch.ID(), Start: uint64(c), Size: 1})
		_, p := ls.nameFromID(ch.ID())
		b, _ := os.ReadFile(p)
		paths, objects = append(paths, p), append(objects, b)
	}
	victim := vChoose("emptied-chunk", 2)
	os.WriteFile(paths[victim], nil, 0644)
	dir := vTempDir()
	sf, err := NewSparseFile(dir+"/cache", idx, ls, SparseFileOptions{})
	vAssert(err == nil, "NewSparseFile failed")
	h, _ := sf.Open()
	verifSparseRead(h, blob, 0, 2, "read while a chunk object is empty")
	os.WriteFile(paths[victim], objects[victim], 0644) // the store recovers
	verifSparseRead(h, blob, 0, 2, "read after the store recovered")
	vCover("done")
}
