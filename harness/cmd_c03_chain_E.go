package main

// C03 / C11 (cmd/desync): the store chains the CLI builds from its options
// (MultiStoreWithCache: router + failover groups + cache with repair) never deliver a chunk
// that does not hash to the requested ID, and follow the cache policy.
// (engine-only: package main harness, model file system)

import (
	"bytes"
	"context"
	"io/ioutil"
	"net/http"
	"net/url"
	"os"

	"github.com/folbricht/desync"
	"github.com/spf13/pflag"
)

func VerifC03_CmdStoreChain_E() {
	root := vTempDir()
	os.Mkdir(root+"/store", 0755)
	os.Mkdir(root+"/store2", 0755)
	os.Mkdir(root+"/cache", 0755)
	opt := desync.StoreOptions{}
	up, _ := desync.NewLocalStore(root+"/store", opt)
	good := desync.NewChunk([]byte{0x61, 0x62})
	other := desync.NewChunk([]byte{0x63, 0x64})
	id := good.ID()
	vAssert(up.StoreChunk(good) == nil && up.StoreChunk(other) == nil, "store setup")
	// the stored object of `good` is replaced (solver's choice) by another chunk's valid object,
	// by arbitrary bytes, or left intact
	name := func(base string, c *desync.Chunk) string {
		i := c.ID()
		s := i.String()
		return base + "/" + s[0:4] + "/" + s + ".cacnk"
	}
	corruption := vChoose("corruption", 3)
	switch corruption {
	case 1:
		b, _ := os.ReadFile(name(root+"/store", other))
		os.WriteFile(name(root+"/store", good), b, 0644)
	case 2:
		os.WriteFile(name(root+"/store", good), vBytes("garbage", 5), 0644)
	}
	cache := ""
	if vChoose("with-cache", 2) == 1 {
		cache = root + "/cache"
	}
	locs := []string{root + "/store"}
	if vChoose("two-stores", 2) == 1 {
		locs = []string{root + "/store2", root + "/store"} // the first one merely lacks the chunk
	}
	var cmdOpt cmdStoreOptions
	addStoreOptions(&cmdOpt, pflag.NewFlagSet("verif", pflag.ContinueOnError))
	cmdOpt.n, cmdOpt.cacheRepair = 1, vChoose("cache-repair", 2) == 1
	s, err := MultiStoreWithCache(cmdOpt, cache, locs...)
	vAssert(err == nil, "MultiStoreWithCache failed on local stores")
	c, err := s.GetChunk(id)
	vCover("get-returned")
	if err == nil {
		vCover("delivered")
		b, derr := c.Data()
		if derr == nil {
			vAssert(desync.Digest.Sum(b) == id, "the store chain built by the CLI delivered data that does not hash to the requested ID")
		}
	}
	if corruption == 0 {
		vAssert(err == nil, "intact chunk not delivered through the chain")
		if cache != "" {
			// the miss filled the cache
			_, serr := os.Stat(name(root+"/cache", good))
			vAssert(serr == nil, "cache not filled on a miss")
		}
	} else if cache != "" {
		// nothing invalid may end up in the cache under the requested ID
		if b, rerr := os.ReadFile(name(root+"/cache", good)); rerr == nil {
			cs, _ := desync.NewLocalStore(root+"/cache", opt)
			_, gerr := cs.GetChunk(id)
			vAssert(gerr == nil, "an object that does not match the ID was written into the cache")
			_ = b
		}
	}
}

// verifNetwork is what lies behind every real *http.Transport the code under test builds from a
// store URL (the engine routes http.Client.Do there): an in-process server.
var verifNetwork http.RoundTripper

type verifHandlerNet struct{ h http.Handler }

type verifRecorderRW struct {
	code int
	hdr  http.Header
	body []byte
}

func (w *verifRecorderRW) Header() http.Header {
	if w.hdr == nil {
		w.hdr = http.Header{}
	}
	return w.hdr
}
func (w *verifRecorderRW) Write(b []byte) (int, error) {
	if w.code == 0 {
		w.code = 200
	}
	w.body = append(w.body, b...)
	return len(b), nil
}
func (w *verifRecorderRW) WriteHeader(c int) {
	if w.code == 0 {
		w.code = c
	}
}

func (n verifHandlerNet) RoundTrip(r *http.Request) (*http.Response, error) {
	w := &verifRecorderRW{}
	if r.Body == nil {
		r.Body = ioutil.NopCloser(bytes.NewReader(nil))
	}
	n.h.ServeHTTP(w, r)
	if w.code == 0 {
		w.code = 200
	}
	return &http.Response{StatusCode: w.code, Body: ioutil.NopCloser(bytes.NewReader(w.body)), Header: http.Header{}}, nil
}

// VerifC11_CmdRemoteCache_E: a chain shape the CLI can build with a cache that is not a local
// directory (an HTTP chunk server).  The cache holds a damaged copy of the chunk, the upstream
// store an intact one: with cache repair on (the default) the chain delivers the chunk and the
// cache is repaired; with repair off the damage is reported, never delivered.
func VerifC11_CmdRemoteCache_E() {
	root := vTempDir()
	os.Mkdir(root+"/store", 0755)
	os.Mkdir(root+"/cachedir", 0755)
	up, _ := desync.NewLocalStore(root+"/store", desync.StoreOptions{})
	good := desync.NewChunk([]byte{0x61, 0x62})
	other := desync.NewChunk([]byte{0x63, 0x64})
	id := good.ID()
	vAssert(up.StoreChunk(good) == nil, "store setup")
	// the cache server's own store: holds another chunk's object under good's name
	behind, _ := desync.NewLocalStore(root+"/cachedir", desync.StoreOptions{SkipVerify: true})
	damaged := vChoose("cache-state", 3) // 0 empty, 1 damaged copy, 2 intact copy
	switch damaged {
	case 1:
		fake, _ := desync.NewChunkWithID(id, []byte{0x63, 0x64}, true)
		vAssert(behind.StoreChunk(fake) == nil, "cache setup")
		_ = other
	case 2:
		vAssert(behind.StoreChunk(good) == nil, "cache setup")
	}
	verifNetwork = verifHandlerNet{desync.NewHTTPHandler(behind, true, true, desync.Converters{desync.Compressor{}}, "")}
	var cmdOpt cmdStoreOptions
	addStoreOptions(&cmdOpt, pflag.NewFlagSet("verif", pflag.ContinueOnError))
	cmdOpt.n = 1
	cmdOpt.cacheRepair = vChoose("cache-repair", 2) == 1
	s, err := MultiStoreWithCache(cmdOpt, "http://cache/", root+"/store")
	vAssert(err == nil, "MultiStoreWithCache failed")
	c, err := s.GetChunk(id)
	vCover("get-returned")
	if err == nil {
		b, derr := c.Data()
		vAssert(derr == nil && desync.Digest.Sum(b) == id, "the chain delivered data that does not hash to the requested ID")
	}
	if damaged != 1 || cmdOpt.cacheRepair {
		vAssert(err == nil, "chain with a healthy upstream failed (a damaged cache entry is to be repaired from upstream when cache repair is on)")
	}
	if err == nil && damaged == 1 {
		// the cache now holds the right bytes under the ID
		verified, _ := desync.NewLocalStore(root+"/cachedir", desync.StoreOptions{})
		_, gerr := verified.GetChunk(id)
		vAssert(gerr == nil, "the damaged cache entry was not replaced")
	}
}

// VerifC16_CmdPruneConfigured_E: `desync prune -s <store> <index>` (whole runPrune) for a local
// store whose options come from the config file: the store is configured as uncompressed under
// its absolute path and named on the command line in one of several spellings of that path.
// Whatever the spelling, prune works on the store's own format: the compressed file of the same
// store survives, the unreferenced uncompressed chunk goes, the referenced one stays.
func VerifC16_CmdPruneConfigured_E() {
	root := vTempDir() // "/vrootN"; the working directory of the model is "/"
	os.Mkdir(root+"/store", 0755)
	os.Mkdir(root+"/x", 0755)
	unc, _ := desync.NewLocalStore(root+"/store", desync.StoreOptions{Uncompressed: true})
	cmp, _ := desync.NewLocalStore(root+"/store", desync.StoreOptions{})
	keep, drop, other := desync.NewChunk([]byte{1}), desync.NewChunk([]byte{2}), desync.NewChunk([]byte{3})
	vAssert(unc.StoreChunk(keep) == nil && unc.StoreChunk(drop) == nil && cmp.StoreChunk(other) == nil, "store setup")
	idx := desync.Index{Index: desync.FormatIndex{FeatureFlags: desync.CaFormatSHA512256, ChunkSizeMin: 1, ChunkSizeAvg: 1, ChunkSizeMax: 1},
		Chunks: []desync.IndexChunk{{ID: keep.ID(), Start: 0, Size: 1}}}
	f, _ := os.Create(root + "/keep.caibx")
	idx.WriteTo(f)
	f.Close()
	cfg = Config{StoreOptions: map[string]desync.StoreOptions{root + "/store": {Uncompressed: true}}}
	spellings := []string{root + "/store", root[1:] + "/store", root + "/store/", root + "/./store", root + "/x/../store"}
	var opt pruneOptions
	addStoreOptions(&opt.cmdStoreOptions, pflag.NewFlagSet("verif", pflag.ContinueOnError))
	opt.n = 1
	opt.yes = true
	opt.store = spellings[vChoose("spelling", len(spellings))]
	args := []string{root + "/keep.caibx"}
	damaged := vChoose("second-index", 3) // 0 none, 1 truncated inside its table, 2 missing
	if damaged == 1 {
		whole, _ := os.ReadFile(root + "/keep.caibx")
		os.WriteFile(root+"/cut.caibx", whole[:len(whole)-30], 0644)
		args = append(args, root+"/cut.caibx")
	} else if damaged == 2 {
		args = append(args, root+"/nosuch.caibx")
	}
	err := runPrune(context.Background(), opt, args)
	vCover("prune-returned")
	exists0 := func(c *desync.Chunk, ext string) bool {
		id := c.ID()
		s := id.String()
		_, e := os.Stat(root + "/store/" + s[0:4] + "/" + s + ext)
		return e == nil
	}
	if damaged != 0 {
		// an index that cannot be read means the reference set is unknown: nothing may be deleted
		vAssert(err != nil, "prune reported success although one of its index files could not be read")
		vAssert(exists0(keep, "") && exists0(drop, "") && exists0(other, ".cacnk"), "prune deleted chunks although one of its index files could not be read")
		return
	}
	vAssert(err == nil, "prune of a healthy local store failed")
	exists := func(c *desync.Chunk, ext string) bool {
		id := c.ID()
		s := id.String()
		_, e := os.Stat(root + "/store/" + s[0:4] + "/" + s + ext)
		return e == nil
	}
	vAssert(exists(other, ".cacnk"), "prune deleted a chunk file of the other compression format (store options of the config not applied?)")
	vAssert(exists(keep, ""), "prune deleted a referenced chunk")
	if err == nil {
		vAssert(!exists(drop, ""), "prune reported success but left an unreferenced chunk of the store's own format")
	}
}

// VerifC15_CmdChunkServerAuth_E: the `desync chunk-server` command itself (runChunkServer: option
// validation, store chain, handler registration on the default mux; listening fails at once in the
// model) with the authorization value given by --authorization or by DESYNC_HTTP_AUTH: the
// handler it registered answers 401 to a request without the value and serves one that has it.
func VerifC15_CmdChunkServerAuth_E() {
	root := vTempDir()
	os.Mkdir(root+"/store", 0755)
	ls, _ := desync.NewLocalStore(root+"/store", desync.StoreOptions{})
	good := desync.NewChunk([]byte{0x61, 0x62})
	vAssert(ls.StoreChunk(good) == nil, "store setup")
	var opt chunkServerOptions
	addStoreOptions(&opt.cmdStoreOptions, pflag.NewFlagSet("verif", pflag.ContinueOnError))
	opt.n = 1
	opt.stores = []string{root + "/store"}
	opt.listenAddresses = []string{":0"}
	if vChoose("secret-from", 2) == 0 {
		opt.auth = "secret"
	} else {
		os.Setenv("DESYNC_HTTP_AUTH", "secret")
	}
	// the command's flags: --writable, --skip-verify-write and --skip-verify-read (independent of each other)
	opt.writable = true
	opt.skipVerifyWrite = vChoose("skip-verify-write", 2) == 1
	opt.skipVerify = vChoose("skip-verify-read", 2) == 1
	http.DefaultServeMux = http.NewServeMux() // a fresh default mux for this run (package initialisers are not executed by the engine)
	err := runChunkServer(context.Background(), opt, nil)
	vCover("server-returned")
	vAssert(err == nil, "chunk-server failed to start over a local store")
	id := good.ID()
	hx := id.String()
	path := "/" + hx[0:4] + "/" + hx + ".cacnk"
	for k, hdr := range []string{"", "wrong", "secret"} {
		w := &verifRecorderRW{}
		r := &http.Request{Method: "GET", URL: &url.URL{Path: path}, Header: http.Header{}, Body: ioutil.NopCloser(bytes.NewReader(nil)), RequestURI: path}
		if hdr != "" {
			r.Header["Authorization"] = []string{hdr}
		}
		http.DefaultServeMux.ServeHTTP(w, r)
		if k < 2 {
			vAssert(w.code == 401, "the server started by the CLI serves a request that does not carry the configured authorization value")
		} else {
			vAssert(w.code == 200, "the server started by the CLI refuses the configured authorization value")
		}
	}
	// an upload whose content does not match the ID in its path is refused unless --skip-verify-write was given
	other := desync.NewChunk([]byte{0x7a})
	oid := other.ID()
	ohx := oid.String()
	wrong, _ := desync.Compress([]byte{0x61, 0x62}) // good's content under other's name
	w := &verifRecorderRW{}
	opath := "/" + ohx[0:4] + "/" + ohx + ".cacnk"
	r := &http.Request{Method: "PUT", URL: &url.URL{Path: opath}, Header: http.Header{"Authorization": []string{"secret"}}, Body: ioutil.NopCloser(bytes.NewReader(wrong)), RequestURI: opath}
	http.DefaultServeMux.ServeHTTP(w, r)
	_, serr := os.Stat(root + "/store/" + ohx[0:4] + "/" + ohx + ".cacnk")
	if !opt.skipVerifyWrite {
		vAssert(w.code >= 400 && os.IsNotExist(serr), "the server started by the CLI stored an upload whose content does not match its ID although write verification was not disabled")
	}
}

// VerifC17_CmdIndexNames_E: verify-index (and every other command) reads the index file that
// was named on the command line - also when the name contains characters that mean something in
// a URL ('?', '#', '%41') and a sibling file carries the name without them.
func VerifC17_CmdIndexNames_E() {
	dir := vTempDir()
	mk := func(size uint64) desync.Index {
		id := desync.NewChunk([]byte{byte(size)}).ID()
		return desync.Index{Index: desync.FormatIndex{FeatureFlags: desync.CaFormatSHA512256, ChunkSizeMin: 1, ChunkSizeAvg: 1, ChunkSizeMax: 8},
			Chunks: []desync.IndexChunk{{ID: id, Start: 0, Size: size}}}
	}
	write := func(name string, idx desync.Index) {
		f, _ := os.Create(dir + "/" + name)
		idx.WriteTo(f)
		f.Close()
	}
	names := []string{"a.caibx?rev=2", "a.caibx#frag", "a%41.caibx", "a b.caibx"}
	name := names[vChoose("index-name", len(names))]
	write("a.caibx", mk(1))  // the sibling a URL-minded lookup would find
	write("aA.caibx", mk(2)) // what "a%41.caibx" decodes to
	write(name, mk(3))       // the file that is named on the command line
	var cmdOpt cmdStoreOptions
	addStoreOptions(&cmdOpt, pflag.NewFlagSet("verif", pflag.ContinueOnError))
	idx, err := readCaibxFile(dir+"/"+name, cmdOpt)
	vCover("read")
	vAssert(err == nil, "the index file named on the command line could not be read")
	if err == nil {
		vAssert(len(idx.Chunks) == 1 && idx.Chunks[0].Size == 3, "another index file than the one named on the command line was read")
	}
}

// VerifC15_CmdIndexServerAuth_E: the `desync index-server` command (runIndexServer) with the
// authorization value from --authorization or from DESYNC_HTTP_AUTH: the handler it registered
// answers 401 without the value (GET and, writable, PUT) and serves with it.
func VerifC15_CmdIndexServerAuth_E() {
	root := vTempDir()
	os.Mkdir(root+"/idx", 0755)
	idx := desync.Index{Index: desync.FormatIndex{FeatureFlags: desync.CaFormatSHA512256, ChunkSizeMin: 1, ChunkSizeAvg: 1, ChunkSizeMax: 1}}
	f, _ := os.Create(root + "/idx/a.caibx")
	idx.WriteTo(f)
	f.Close()
	var opt indexServerOptions
	addStoreOptions(&opt.cmdStoreOptions, pflag.NewFlagSet("verif", pflag.ContinueOnError))
	opt.n = 1
	opt.store = root + "/idx"
	opt.listenAddresses = []string{":0"}
	opt.writable = vChoose("writable", 2) == 1
	if vChoose("secret-from", 2) == 0 {
		opt.auth = "secret"
	} else {
		os.Setenv("DESYNC_HTTP_AUTH", "secret")
	}
	http.DefaultServeMux = http.NewServeMux()
	err := runIndexServer(context.Background(), opt, nil)
	vCover("server-returned")
	vAssert(err == nil, "index-server failed to start over a local directory")
	for k, hdr := range []string{"", "wrong", "secret"} {
		w := &verifRecorderRW{}
		r := &http.Request{Method: "GET", URL: &url.URL{Path: "/a.caibx"}, Header: http.Header{}, Body: ioutil.NopCloser(bytes.NewReader(nil)), RequestURI: "/a.caibx"}
		if hdr != "" {
			r.Header["Authorization"] = []string{hdr}
		}
		http.DefaultServeMux.ServeHTTP(w, r)
		if k < 2 {
			vAssert(w.code == 401, "the index server started by the CLI serves a request that does not carry the configured authorization value")
		} else {
			vAssert(w.code == 200, "the index server started by the CLI refuses the configured authorization value")
		}
	}
	var body bytes.Buffer
	idx.WriteTo(&body)
	w := &verifRecorderRW{}
	r := &http.Request{Method: "PUT", URL: &url.URL{Path: "/new.caibx"}, Header: http.Header{}, Body: ioutil.NopCloser(bytes.NewReader(body.Bytes())), RequestURI: "/new.caibx"}
	http.DefaultServeMux.ServeHTTP(w, r)
	_, serr := os.Stat(root + "/idx/new.caibx")
	vAssert(w.code == 401 && os.IsNotExist(serr), "the index server started by the CLI accepted an upload without the authorization value")
}

// VerifC17_CmdVerifyIndexEmpty_E: the verify-index command on an empty index (what make writes
// for an empty blob): only an empty file matches it, for every -n.
func VerifC17_CmdVerifyIndexEmpty_E() {
	dir := vTempDir()
	idx := desync.Index{Index: desync.FormatIndex{FeatureFlags: desync.CaFormatSHA512256, ChunkSizeMin: 16384, ChunkSizeAvg: 65536, ChunkSizeMax: 262144}}
	f, _ := os.Create(dir + "/empty.caibx")
	idx.WriteTo(f)
	f.Close()
	size := vChoose("file-size", 3) // 0, 1 byte, file missing
	switch size {
	case 0:
		os.WriteFile(dir+"/blob", nil, 0644)
	case 1:
		os.WriteFile(dir+"/blob", []byte{7}, 0644)
	}
	var opt verifyIndexOptions
	addStoreOptions(&opt.cmdStoreOptions, pflag.NewFlagSet("verif", pflag.ContinueOnError))
	opt.n = []int{1, 2, 10, 64}[vChoose("n", 4)]
	vSchedFixed(true)
	err := runVerifyIndex(context.Background(), opt, []string{dir + "/empty.caibx", dir + "/blob"})
	vCover("returned")
	if size == 0 {
		vAssert(err == nil, "an empty file does not match the empty index")
	} else {
		vAssert(err != nil, "verify-index accepted a non-empty or missing file against an empty index")
	}
}
