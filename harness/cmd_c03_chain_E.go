package main

// C03 / C11 (cmd/desync): the store chains the CLI builds from its options
// (MultiStoreWithCache: router + failover groups + cache with repair) never deliver a chunk
// that does not hash to the requested ID, and follow the cache policy.
// (engine-only: package main harness, model file system)

import (
	"os"

	"github.com/folbricht/desync"
	"github.com/spf13/pflag"
)

func VerifC03_CmdStoreChain_E() {
	root := vTempDir()
	os.Mkdir(root+"/store", 0755)
	os.Mkdir(root+"/store2", 0755)
	os.Mkdir(root+"/cache", 0755)
	opt := desync.StoreOptions{}
	up, _ := desync.NewLocalStore(root+"/store", opt)
	good := desync.NewChunk([]byte{0x61, 0x62})
	other := desync.NewChunk([]byte{0x63, 0x64})
	id := good.ID()
	vAssert(up.StoreChunk(good) == nil && up.StoreChunk(other) == nil, "store setup")
	// the stored object of `good` is replaced (solver's choice) by another chunk's valid object,
	// by arbitrary bytes, or left intact
	name := func(base string, c *desync.Chunk) string {
		i := c.ID()
		s := i.String()
		return base + "/" + s[0:4] + "/" + s + ".cacnk"
	}
	corruption := vChoose("corruption", 3)
	switch corruption {
	case 1:
		b, _ := os.ReadFile(name(root+"/store", other))
		os.WriteFile(name(root+"/store", good), b, 0644)
	case 2:
		os.WriteFile(name(root+"/store", good), vBytes("garbage", 5), 0644)
	}
	cache := ""
	if vChoose("with-cache", 2) == 1 {
		cache = root + "/cache"
	}
	locs := []string{root + "/store"}
	if vChoose("two-stores", 2) == 1 {
		locs = []string{root + "/store2", root + "/store"} // the first one merely lacks the chunk
	}
	var cmdOpt cmdStoreOptions
	addStoreOptions(&cmdOpt, pflag.NewFlagSet("verif", pflag.ContinueOnError))
	cmdOpt.n, cmdOpt.cacheRepair = 1, vChoose("cache-repair", 2) == 1
	s, err := MultiStoreWithCache(cmdOpt, cache, locs...)
	vAssert(err == nil, "MultiStoreWithCache failed on local stores")
	c, err := s.GetChunk(id)
	vCover("get-returned")
	if err == nil {
		vCover("delivered")
		b, derr := c.Data()
		if derr == nil {
			vAssert(desync.Digest.Sum(b) == id, "the store chain built by the CLI delivered data that does not hash to the requested ID")
		}
	}
	if corruption == 0 {
		vAssert(err == nil, "intact chunk not delivered through the chain")
		if cache != "" {
			// the miss filled the cache
			_, serr := os.Stat(name(root+"/cache", good))
			vAssert(serr == nil, "cache not filled on a miss")
		}
	} else if cache != "" {
		// nothing invalid may end up in the cache under the requested ID
		if b, rerr := os.ReadFile(name(root+"/cache", good)); rerr == nil {
			cs, _ := desync.NewLocalStore(root+"/cache", opt)
			_, gerr := cs.GetChunk(id)
			vAssert(gerr == nil, "an object that does not match the ID was written into the cache")
			_ = b
		}
	}
}
