package desync

// C02: chunking is deterministic: the chunk sequence is the one defined by the
// rolling-hash rule, independent of read fragmentation.
// (engine-only: the buzhash table is an uninterpreted function, so the result holds
// for every table; the table's constants are pinned by the repository's own tests)

import (
	"bytes"
	"io"
	"math/bits"
)

// verifRefCut is the non-rolling reference: length of the chunk that starts at data[start:].
func verifRefCut(data []byte, start, min, max int, d uint32) int {
	remaining := len(data) - start
	if remaining <= min {
		return remaining
	}
	m := max
	if remaining < max {
		m = remaining
	}
	cut := m
	found := false
	for p := min + 1; p < m; p++ {
		var h uint32
		w := data[start+p-ChunkerWindowSize : start+p]
		for k, b := range w {
			h ^= bits.RotateLeft32(vUF32("hashTable", b), ChunkerWindowSize-k-1)
		}
		hit := h%d == d-1
		// first hit wins (non-forking: select with ite)
		cut = vIteInt(vAnd(vNot(found), hit), p, cut)
		found = vOr(found, hit)
	}
	return cut
}

// verifFragReader hands out the stream in pieces of solver-chosen sizes.
type verifFragReader struct {
	data  []byte
	pos   int
	sizes []int
	k     int
	eofWithData bool
}

func (r *verifFragReader) Read(p []byte) (int, error) {
	if r.pos >= len(r.data) {
		return 0, io.EOF
	}
	n := len(r.data) - r.pos
	if r.k < len(r.sizes) && r.sizes[r.k] < n {
		n = r.sizes[r.k]
	}
	r.k++
	if n > len(p) {
		n = len(p)
	}
	copy(p, r.data[r.pos:r.pos+n])
	r.pos += n
	if r.eofWithData && r.pos == len(r.data) {
		return n, io.EOF
	}
	return n, nil
}

type verifChunkCfg struct{ min, avg, max uint64 }

func verifC02Run(cfg verifChunkCfg, l int, rd func(data []byte) io.Reader, nchunks int) {
	vUFTable("hashTable", hashTable)
	data := vBytes("stream", l)
	c, err := NewChunker(rd(data), cfg.min, cfg.avg, cfg.max)
	vAssert(err == nil, "NewChunker rejected a valid configuration")
	d := discriminatorFromAvg(cfg.avg)
	pos := 0
	for n := 0; n < nchunks; n++ {
		start, b, err := c.Next()
		vAssert(err == nil, "Next failed on a healthy reader")
		vCover("next-returned")
		want := verifRefCut(data, pos, int(cfg.min), int(cfg.max), d)
		vAssert(start == uint64(pos), "chunk does not start where the previous one ended (gap or overlap)")
		vAssert(len(b) == want, "cut is not at the first position past min where the window hash meets the discriminator (or at max / end of stream)")
		if len(b) > 0 {
			vAssert(vEqBytes(b, data[pos:pos+len(b)]), "chunk bytes are not the stream's bytes")
			vAssert(uint64(len(b)) <= cfg.max, "chunk larger than max")
			if pos+len(b) < l {
				vAssert(uint64(len(b)) >= cfg.min, "a chunk other than the last is shorter than min")
			}
		} else {
			vAssert(pos == l, "empty chunk before the end of the stream")
		}
		pos += len(b)
	}
}

// VerifC02_Next_E: Chunker.Next against the reference, plain reader.
func VerifC02_Next_E() {
	vUnwind(400)
	cfg := verifChunkCfg{82, 86, 88} // avg 86 gives discriminator 64: the boundary test is a bit mask
	lens := []int{0, 1, 81, 82, 83, 88, 89, 170, 176, 177}
	if vTier() > 0 {
		cfg = verifChunkCfg{48, 86, 112} // 64 roll steps per chunk: the window index wraps around
		lens = []int{96, 112, 113, 160, 224, 225}
	}
	l := lens[vChoose("length", len(lens))]
	verifC02Run(cfg, l, func(d []byte) io.Reader { return bytes.NewReader(d) }, 3)
}

// VerifC02_Fragmented_E: the same with a reader that returns solver-chosen fragments
// (and data together with io.EOF).
func VerifC02_Fragmented_E() {
	vUnwind(400)
	cfg := verifChunkCfg{82, 86, 88}
	l := []int{83, 89, 176}[vChoose("length", 3)]
	s1, s2 := 1+vChoose("frag1", 3)*41, 1+vChoose("frag2", 3)*44
	eof := vChoose("eof-with-data", 2) == 1
	verifC02Run(cfg, l, func(d []byte) io.Reader {
		return &verifFragReader{data: d, sizes: []int{s1, s2}, eofWithData: eof}
	}, 3)
}
