package main

// C08/C07 (cmd/desync): an extract without --in-place that dies or is cancelled at any
// point leaves the destination path untouched.  (engine-only: crash injection)

import (
	"bytes"
	"context"
	"errors"
	"os"

	"github.com/folbricht/desync"
	"github.com/spf13/pflag"
)

type verifCmdStore struct {
	chunks map[desync.ChunkID][]byte
	gets   int
	failAt int
}

func (s *verifCmdStore) GetChunk(id desync.ChunkID) (*desync.Chunk, error) {
	vYield()
	n := s.gets
	s.gets++
	if n == s.failAt {
		return nil, errors.New("verif: store failure")
	}
	b, ok := s.chunks[id]
	if !ok {
		return nil, desync.ChunkMissing{ID: id}
	}
	return desync.NewChunkWithID(id, b, true)
}
func (s *verifCmdStore) HasChunk(id desync.ChunkID) (bool, error) { _, ok := s.chunks[id]; return ok, nil }
func (s *verifCmdStore) Close() error                              { return nil }
func (s *verifCmdStore) String() string                            { return "verif-cmd-store" }

func verifCmdBlob(k int) ([]byte, desync.Index, *verifCmdStore) {
	st := &verifCmdStore{chunks: map[desync.ChunkID][]byte{}, failAt: -1}
	idx := desync.Index{Index: desync.FormatIndex{FeatureFlags: desync.CaFormatSHA512256, ChunkSizeMin: 1, ChunkSizeAvg: 1, ChunkSizeMax: 1}}
	var blob []byte
	for c := 0; c < k; c++ {
		data := []byte{byte(0x41 + c)}
		ch := desync.NewChunk(data)
		st.chunks[ch.ID()] = data
		idx.Chunks = append(idx.Chunks, desync.IndexChunk{ID: ch.ID(), Start: uint64(c), Size: 1})
		blob = append(blob, data...)
	}
	return blob, idx, st
}

// VerifC08_CmdExtractCrash_E: the process dies before the k-th file-system mutation.
func VerifC08_CmdExtractCrash_E() {
	blob, idx, st := verifCmdBlob(2)
	dir := vTempDir()
	target := dir + "/out"
	old := []byte("previous")
	hadOld := vChoose("target-existed", 2) == 1
	if hadOld {
		os.WriteFile(target, old, 0644)
	}
	k := vChoose("crash-before-mutation", 16)
	vCrashAt(k, -1, func() {
		vCover("post-mortem")
		b, err := os.ReadFile(target)
		if hadOld {
			vAssert(err == nil && (string(b) == string(old) || string(b) == string(blob)), "destination holds neither its previous content nor the complete blob after a crash")
		} else {
			vAssert(err != nil || string(b) == string(blob), "a partial extract target is visible after a crash")
		}
	})
	_, err := writeWithTmpFile(context.Background(), target, idx, st, nil, desync.AssembleOptions{N: 1})
	vCover("completed")
	if err == nil {
		b, _ := os.ReadFile(target)
		vAssert(string(b) == string(blob), "extract reported success but the destination is not the blob")
	}
}

// VerifC07_CmdExtractCancel_E: cancellation (the signal handler's cancel()) or a store
// failure at any point: error returned and the destination untouched, temp file removed.
func VerifC07_CmdExtractCancel_E() {
	blob, idx, st := verifCmdBlob(2)
	st.failAt = vChoose("failing-get", 3) - 1
	dir := vTempDir()
	target := dir + "/out"
	old := []byte("previous")
	hadOld := vChoose("target-existed", 2) == 1
	if hadOld {
		os.WriteFile(target, old, 0644)
	}
	ctx, cancel := context.WithCancel(context.Background())
	defer cancel()
	switch vChoose("cancel", 3) {
	case 1:
		cancel()
	case 2:
		go cancel()
	}
	_, err := writeWithTmpFile(ctx, target, idx, st, nil, desync.AssembleOptions{N: 1})
	vCover("returned")
	b, rerr := os.ReadFile(target)
	if err == nil {
		vAssert(string(b) == string(blob), "extract reported success but the destination is not the blob")
	} else if hadOld {
		vAssert(rerr == nil && string(b) == string(old), "failed/interrupted extract changed the destination")
	} else {
		vAssert(os.IsNotExist(rerr), "failed/interrupted extract left something at a destination path that did not exist")
	}
	for _, f := range vFSList(dir) {
		vAssert(f == target, "temp file left behind after extract returned")
	}
}

// verifCmdExtractSetup puts a two-chunk blob's chunks into a local store and its index into a
// file on the model file system, and returns the options/arguments of `desync extract`.
func verifCmdExtractSetup() (blob []byte, opt extractOptions, args []string, dir string) {
	dir = vTempDir()
	os.Mkdir(dir+"/store", 0755)
	ls, _ := desync.NewLocalStore(dir+"/store", desync.StoreOptions{})
	idx := desync.Index{Index: desync.FormatIndex{FeatureFlags: desync.CaFormatSHA512256, ChunkSizeMin: 1, ChunkSizeAvg: 1, ChunkSizeMax: 1}}
	for c := 0; c < 2; c++ {
		data := []byte{byte(0x41 + c)}
		ch := desync.NewChunk(data)
		vAssert(ls.StoreChunk(ch) == nil, "store setup")
		idx.Chunks = append(idx.Chunks, desync.IndexChunk{ID: ch.ID(), Start: uint64(c), Size: 1})
		blob = append(blob, data...)
	}
	f, _ := os.Create(dir + "/blob.caibx")
	idx.WriteTo(f)
	f.Close()
	addStoreOptions(&opt.cmdStoreOptions, pflag.NewFlagSet("verif", pflag.ContinueOnError))
	opt.n = 1
	opt.stores = []string{dir + "/store"}
	args = []string{dir + "/blob.caibx", dir + "/out"}
	return
}

// VerifC08_CmdRunExtractCrash_E: the whole `desync extract` command (option handling, store
// chain, index file, choice between in-place and temp-file mode) without --in-place; the process
// dies before the k-th file-system mutation: the destination - absent or holding an older
// file - keeps its previous state or holds the complete blob.
func VerifC08_CmdRunExtractCrash_E() {
	blob, opt, args, dir := verifCmdExtractSetup()
	target := dir + "/out"
	old := []byte("previous")
	hadOld := vChoose("target-existed", 2) == 1
	if hadOld {
		os.WriteFile(target, old, 0644)
	}
	if vChoose("with-seed", 2) == 1 {
		// --seed <index>: the seed blob is an older file next to its index (same two chunks here)
		os.WriteFile(dir+"/seed", blob, 0644)
		idxBytes, _ := os.ReadFile(dir + "/blob.caibx")
		os.WriteFile(dir+"/seed.caibx", idxBytes, 0644)
		opt.seeds = []string{dir + "/seed.caibx"}
	}
	k := vChoose("crash-before-mutation", 18)
	vCrashAt(k, -1, func() {
		vCover("post-mortem")
		b, err := os.ReadFile(target)
		if hadOld {
			vAssert(err == nil && (string(b) == string(old) || string(b) == string(blob)), "destination holds neither its previous content nor the complete blob after a crash")
		} else {
			vAssert(err != nil || string(b) == string(blob), "a partial extract target is visible after a crash at a destination that did not exist")
		}
	})
	err := runExtract(context.Background(), opt, args)
	vCover("completed")
	vAssert(err == nil, "extract from a complete local store failed")
	b, _ := os.ReadFile(target)
	vAssert(string(b) == string(blob), "extract reported success but the destination is not the blob")
}

// VerifC07_CmdTarIndexCancel_E: `desync tar -i -s <store> <index> <dir>` (the whole runTar: the
// archive streams through a pipe into the chunker) with a cancellation before the start or from
// a goroutine at any scheduling point: success means the stored index describes the complete
// archive; otherwise an error is returned and no index file is written.
func VerifC07_CmdTarIndexCancel_E() {
	dir := vTempDir()
	os.Mkdir(dir+"/src", 0755)
	os.WriteFile(dir+"/src/a", []byte("hello"), 0644)
	os.Mkdir(dir+"/store", 0755)
	// the complete archive, for its length
	var full bytes.Buffer
	vAssert(desync.Tar(context.Background(), &full, desync.NewLocalFS(dir+"/src", desync.LocalFSOptions{})) == nil, "reference tar")
	var opt tarOptions
	addStoreOptions(&opt.cmdStoreOptions, pflag.NewFlagSet("verif", pflag.ContinueOnError))
	opt.n = 1
	opt.store = dir + "/store"
	opt.chunkSize = "16:64:256"
	opt.createIndex = true
	opt.inFormat = "disk"
	vFSYield(false)        // only the pipeline's own synchronisation points are cancellation instants here
	vSchedBlockFixed(true) // the tar/chunker/worker pipeline hands over deterministically; the cancelling goroutine preempts it anywhere
	ctx, cancel := context.WithCancel(context.Background())
	defer cancel()
	switch vChoose("cancel", 3) {
	case 1:
		cancel()
	case 2:
		go cancel()
	}
	err := runTar(ctx, opt, []string{dir + "/out.caidx", dir + "/src"})
	vCover("returned")
	b, rerr := os.ReadFile(dir + "/out.caidx")
	if err == nil {
		vAssert(rerr == nil, "tar -i reported success but wrote no index")
		idx, perr := desync.IndexFromReader(bytes.NewReader(b))
		vAssert(perr == nil && idx.Length() == int64(full.Len()), "tar -i reported success but the index does not describe the complete archive (interrupted?)")
	} else {
		vAssert(os.IsNotExist(rerr), "tar -i failed but left an index file")
	}
}

// VerifC13_CmdTarOverwrite_E: `desync tar <catar> <dir>` (whole runTar, plain archive output)
// onto a path that does not exist, or already holds a shorter or a longer file: afterwards the
// file is exactly the archive (nothing of an older, longer file follows the root's goodbye table).
func VerifC13_CmdTarOverwrite_E() {
	dir := vTempDir()
	os.Mkdir(dir+"/src", 0755)
	os.WriteFile(dir+"/src/a", []byte("hello"), 0644)
	var full bytes.Buffer
	vAssert(desync.Tar(context.Background(), &full, desync.NewLocalFS(dir+"/src", desync.LocalFSOptions{})) == nil, "reference tar")
	switch vChoose("previous-file", 3) {
	case 1:
		os.WriteFile(dir+"/out.catar", []byte("short"), 0644)
	case 2:
		os.WriteFile(dir+"/out.catar", make([]byte, full.Len()+64), 0644)
	}
	var opt tarOptions
	addStoreOptions(&opt.cmdStoreOptions, pflag.NewFlagSet("verif", pflag.ContinueOnError))
	opt.n = 1
	opt.inFormat = "disk"
	vSchedFixed(true)
	err := runTar(context.Background(), opt, []string{dir + "/out.catar", dir + "/src"})
	vCover("returned")
	vAssert(err == nil, "tar of a small tree failed")
	b, rerr := os.ReadFile(dir + "/out.catar")
	vAssert(rerr == nil && bytes.Equal(b, full.Bytes()), "the archive file is not exactly the archive (bytes of an older file left behind?)")
}

// VerifC07_CmdRunExtractCancel_E: the whole `desync extract` command with each of its output
// options (--in-place, --print-stats) and a cancellation before the start or at any scheduling
// point: a nil result means the destination holds the complete blob.
func VerifC07_CmdRunExtractCancel_E() {
	blob, opt, args, dir := verifCmdExtractSetup()
	opt.inPlace = vChoose("in-place", 2) == 1
	opt.printStats = vChoose("print-stats", 2) == 1
	stdout = &bytes.Buffer{}
	vFSYield(false)
	vSchedBlockFixed(true)
	ctx, cancel := context.WithCancel(context.Background())
	defer cancel()
	switch vChoose("cancel", 3) {
	case 1:
		cancel()
	case 2:
		go cancel()
	}
	err := runExtract(ctx, opt, args)
	vCover("returned")
	b, rerr := os.ReadFile(dir + "/out")
	if err == nil {
		vAssert(rerr == nil && string(b) == string(blob), "extract reported success but the destination is not the complete blob (interrupted?)")
	} else if !opt.inPlace {
		vAssert(os.IsNotExist(rerr), "failed/interrupted extract left something at a destination path that did not exist")
	}
}

// VerifC01_CmdSeedDir_E: `desync extract --seed-dir <dir> <index> <out>` where the seed directory
// is the one that holds the index being extracted (and an older version of the target next to
// it), the directory and the index spelled differently (absolute / relative): the index being
// extracted is not its own seed - with a complete store the extract succeeds and is correct.
func VerifC01_CmdSeedDir_E() {
	blob, opt, _, dir := verifCmdExtractSetup()
	// the index being extracted lives in <dir> as blob.caibx; the "prior target" next to it is stale
	os.WriteFile(dir+"/blob", []byte("zz"), 0644)
	spell := func(p string, rel bool) string {
		if rel {
			return p[1:] // relative to the working directory "/"
		}
		return p
	}
	opt.seedDirs = []string{spell(dir, vChoose("seed-dir-relative", 2) == 1)}
	index := spell(dir+"/blob.caibx", vChoose("index-relative", 2) == 1)
	opt.inPlace = vChoose("in-place", 2) == 1
	vSchedFixed(true)
	err := runExtract(context.Background(), opt, []string{index, dir + "/blob"})
	vCover("returned")
	vAssert(err == nil, "extract failed although the store holds every chunk (the index being extracted used as its own seed?)")
	b, _ := os.ReadFile(dir + "/blob")
	if err == nil {
		vAssert(string(b) == string(blob), "extract reported success but the output is not the blob")
	}
}
