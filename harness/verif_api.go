package desync

// Verification API.  Under gosmx every function below is an engine intrinsic
// (the bodies are never executed); compiled natively (replay tests) they read
// the counterexample recorded by the solver.

import (
	"sync"
	"path/filepath"
	"encoding/hex"
	"encoding/json"
	"fmt"
	"os"
	"strconv"
)

type vReplayData struct {
	Harness string            `json:"harness"`
	Model   map[string]string `json:"model"`
	Label   string            `json:"label"`
	Kind    string            `json:"kind"`
}

// vMu guards the native bookkeeping below: harnesses call the API from several goroutines.
var vMu sync.Mutex

var (
	vReplay     *vReplayData
	vNames      = map[string]int{}
	vFailed     []string
	vCovered    = map[string]bool{}
	vTierNative int
)

// vLoadReplay is called by the native replay test.
func vLoadReplay(path string) error {
	b, err := os.ReadFile(path)
	if err != nil {
		return err
	}
	vReplay = &vReplayData{}
	vNames = map[string]int{}
	vFailed = nil
	return json.Unmarshal(b, vReplay)
}

type vAssumeFailed struct{}

func vName(name string) string {
	n := vNames[name]
	vNames[name] = n + 1
	if n > 0 {
		return fmt.Sprintf("%s#%d", name, n)
	}
	return name
}

func vVal(name string) uint64 {
	vMu.Lock()
	defer vMu.Unlock()
	full := vName(name)
	if vReplay == nil {
		return 0
	}
	s, ok := vReplay.Model[full]
	if !ok || s == "?" {
		return 0
	}
	if len(s) > 16 {
		s = s[len(s)-16:]
	}
	v, _ := strconv.ParseUint(s, 16, 64)
	return v
}

func vU8(name string) uint8   { return uint8(vVal(name)) }
func vU16(name string) uint16 { return uint16(vVal(name)) }
func vU32(name string) uint32 { return uint32(vVal(name)) }
func vU64(name string) uint64 { return vVal(name) }
func vInt(name string) int    { return int(vVal(name)) }
func vI64(name string) int64  { return int64(vVal(name)) }
func vBool(name string) bool  { return vVal(name) != 0 }

func vBytes(name string, n int) []byte {
	full := vName(name)
	out := make([]byte, n)
	if vReplay != nil {
		b, _ := hex.DecodeString(vReplay.Model[full])
		copy(out, b)
	}
	return out
}

func vStr(name string, n int) string { return string(vBytes(name, n)) }

func vChoose(name string, n int) int { return int(vVal(name)) }

func vAssume(c bool) {
	if !c {
		panic(vAssumeFailed{})
	}
}

func vAssert(c bool, label string) {
	if !c {
		vMu.Lock()
		vFailed = append(vFailed, label)
		vMu.Unlock()
	}
}

func vCover(label string) {
	vMu.Lock()
	vCovered[label] = true
	vMu.Unlock()
}
func vNote(s string)            {}
func vTier() int {
	if os.Getenv("VERIF_NATIVE_TIER") == "1" {
		return 1
	}
	return vTierNative
}
func vUnwind(n int)             {}
func vConcCap(n int)            {}
func vPreempt(n int)            {}
func vMapOrders(on bool)        {}
func vExpectPanic(on bool)      {}
func vExpectDeadlock(on bool)   {}
func vInput(n int)              {}
func vYield()                   {}
func vSymbolic() bool           { return false }
func vAnd(a, b bool) bool       { return a && b }
func vOr(a, b bool) bool        { return a || b }
func vImplies(a, b bool) bool   { return !a || b }
func vNot(a bool) bool          { return !a }

var vClock int64

func vNow() int64 {
	vMu.Lock()
	defer vMu.Unlock()
	vClock++
	return vClock
}

func vIteU64(c bool, a, b uint64) uint64 {
	if c {
		return a
	}
	return b
}

func vIteInt(c bool, a, b int) int {
	if c {
		return a
	}
	return b
}

func vIteU8(c bool, a, b uint8) uint8 {
	if c {
		return a
	}
	return b
}

func vEqBytes(a, b []byte) bool { return string(a) == string(b) }

// vUF32/vUFBool have no native counterpart: harnesses that use them are
// replayed inside the engine only.
func vUF32(name string, x uint8) uint32      { panic("vUF32: engine only") }
func vUFBool(name string, window []byte) bool { panic("vUFBool: engine only") }

// ---- model file system control (engine) / real temp dir (native)

func vTempDir() string {
	d, err := os.MkdirTemp("", "verif-native-")
	if err != nil {
		panic(err)
	}
	return d
}

func vFSFault(op string, nth int)             {} // engine only: the nth call of op fails
func vFSShortWrite(nth, k int)                {} // engine only: the nth write accepts k bytes, then fails with ENOSPC
func vFSCalls(op string) int                  { return 0 }
func vFSMutations() int                       { return 0 }
func vCrashAt(k int, short int, after func()) {} // engine only
func vCrashed() bool                          { return false }
func vSetCanClone(on bool)                    {}
func vFSList(dir string) []string {
	if dir == "/" && os.Getenv("VERIF_JAIL") == "" {
		return nil // outside the replay jail only directories of the harness are listed, not the machine
	}
	var out []string
	filepath.Walk(dir, func(p string, info os.FileInfo, err error) error {
		if err == nil && p != dir {
			out = append(out, p)
		}
		return nil
	})
	return out
}
func vSetBlockSize(n int) {}
func vClones() int        { return 0 }
func vSchedFixed(on bool)        {}
func vUFTable(name string, table []uint32) {}
func vFSYield(on bool)            {}
func vRecordIO(on bool) {}
func vIOLog() []uint64  { return nil }
func vSchedBlockFixed(on bool)   {}
