package desync

// C08: process death never exposes a partial chunk under a chunk name.
// (engine-only: crash injection has no native counterpart)

import (
	"os"
	"strings"
	"sync"
)

// VerifC08_StoreChunk_E: the process dies before the k-th file-system mutation of
// StoreChunk (a write may be cut after `short` bytes); afterwards the chunk's final name
// holds nothing or the complete storage bytes, and leftovers are prunable temp files.
func VerifC08_StoreChunk_E() {
	unc := vChoose("uncompressed", 2) == 1
	base := vTempDir()
	s, _ := NewLocalStore(base, StoreOptions{Uncompressed: unc})
	data := vBytes("data", 3)
	c := NewChunk(data)
	id := c.ID()
	want := data
	if !unc {
		want, _ = Compress(data)
	}
	dir, p := s.nameFromID(id)
	k := vChoose("crash-before-mutation", 7)
	short := vChoose("short-write", 4) - 1 // -1: writes are all-or-nothing at the crash point
	done := false
	vCrashAt(k, short, func() {
		vCover("post-mortem")
		b, err := os.ReadFile(p)
		if err == nil {
			vAssert(vEqBytes(b, want), "a partially written chunk is visible under the chunk's name after a crash")
		} else {
			vAssert(os.IsNotExist(err), "chunk path unreadable after crash")
		}
		// whatever else is left lives in the chunk's directory under the temp prefix (prune removes it)
		for _, f := range vFSList(base) {
			if f == dir || f == p {
				continue
			}
			vAssert(strings.HasPrefix(f, dir+"/"+tmpChunkPrefix), "crash left a file that is neither the chunk nor a prunable temp file")
		}
	})
	err := s.StoreChunk(c)
	done = true
	vCover("completed")
	vAssert(!vCrashed(), "post-mortem flag set on a completed run")
	if err == nil {
		b, rerr := os.ReadFile(p)
		vAssert(rerr == nil && vEqBytes(b, want), "StoreChunk returned nil but the chunk file is not complete")
	}
	_ = done
}

// VerifC08_TwoWriters_E: two goroutines store the same chunk; the process dies at an arbitrary point.
func VerifC08_TwoWriters_E() {
	vPreempt(2) // writer A is interrupted by B and resumes while B is still runnable
	base := vTempDir()
	s, _ := NewLocalStore(base, StoreOptions{Uncompressed: true})
	data := []byte{1, 2, 3}
	c := NewChunk(data)
	dir, p := s.nameFromID(c.ID())
	k := vChoose("crash-before-mutation", 14)
	short := vChoose("short-write", 3) - 1
	vCrashAt(k, short, func() {
		vCover("post-mortem")
		b, err := os.ReadFile(p)
		if err == nil {
			vAssert(string(b) == string(data), "a partially written chunk is visible under the chunk's name after a crash")
		}
		for _, f := range vFSList(base) {
			if f == dir || f == p {
				continue
			}
			vAssert(strings.HasPrefix(f, dir+"/"+tmpChunkPrefix), "crash left a file that is neither the chunk nor a prunable temp file")
		}
	})
	var wg sync.WaitGroup
	for w := 0; w < 2; w++ {
		wg.Add(1)
		go func() {
			defer wg.Done()
			s.StoreChunk(NewChunk(data))
		}()
	}
	wg.Wait()
	vCover("completed")
	b, err := os.ReadFile(p)
	vAssert(err == nil && string(b) == string(data), "chunk incomplete after two concurrent writers finished")
}
