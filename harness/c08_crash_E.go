package desync

// C08: process death never exposes a partial chunk under a chunk name.
// (engine-only: crash injection has no native counterpart)

import (
	"context"
	"os"
	"strings"
	"sync"
)

// VerifC08_StoreChunk_E: the process dies before the k-th file-system mutation of
// StoreChunk (a write may be cut after `short` bytes); afterwards the chunk's final name
// holds nothing or the complete storage bytes, and leftovers are prunable temp files.
func VerifC08_StoreChunk_E() {
	unc := vChoose("uncompressed", 2) == 1
	base := vTempDir()
	s, _ := NewLocalStore(base, StoreOptions{Uncompressed: unc})
	data := vBytes("data", 3)
	c := NewChunk(data)
	id := c.ID()
	want := data
	if !unc {
		want, _ = Compress(data)
	}
	dir, p := s.nameFromID(id)
	k := vChoose("crash-before-mutation", 7)
	short := vChoose("short-write", 4) - 1 // -1: writes are all-or-nothing at the crash point
	done := false
	vCrashAt(k, short, func() {
		vCover("post-mortem")
		b, err := os.ReadFile(p)
		if err == nil {
			vAssert(vEqBytes(b, want), "a partially written chunk is visible under the chunk's name after a crash")
		} else {
			vAssert(os.IsNotExist(err), "chunk path unreadable after crash")
		}
		// whatever else is left lives in the chunk's directory under the temp prefix (prune removes it)
		for _, f := range vFSList(base) {
			if f == dir || f == p {
				continue
			}
			vAssert(strings.HasPrefix(f, dir+"/"+tmpChunkPrefix), "crash left a file that is neither the chunk nor a prunable temp file")
		}
	})
	err := s.StoreChunk(c)
	done = true
	vCover("completed")
	vAssert(!vCrashed(), "post-mortem flag set on a completed run")
	if err == nil {
		b, rerr := os.ReadFile(p)
		vAssert(rerr == nil && vEqBytes(b, want), "StoreChunk returned nil but the chunk file is not complete")
	}
	_ = done
}

// VerifC08_TwoWriters_E: two goroutines store the same chunk; the process dies at an arbitrary point.
func VerifC08_TwoWriters_E() {
	vPreempt(2) // writer A is interrupted by B and resumes while B is still runnable
	base := vTempDir()
	s, _ := NewLocalStore(base, StoreOptions{Uncompressed: true})
	data := []byte{1, 2, 3}
	c := NewChunk(data)
	dir, p := s.nameFromID(c.ID())
	k := vChoose("crash-before-mutation", 14)
	short := vChoose("short-write", 3) - 1
	vCrashAt(k, short, func() {
		vCover("post-mortem")
		b, err := os.ReadFile(p)
		if err == nil {
			vAssert(string(b) == string(data), "a partially written chunk is visible under the chunk's name after a crash")
		}
		for _, f := range vFSList(base) {
			if f == dir || f == p {
				continue
			}
			vAssert(strings.HasPrefix(f, dir+"/"+tmpChunkPrefix), "crash left a file that is neither the chunk nor a prunable temp file")
		}
	})
	var wg sync.WaitGroup
	for w := 0; w < 2; w++ {
		wg.Add(1)
		go func() {
			defer wg.Done()
			s.StoreChunk(NewChunk(data))
		}()
	}
	wg.Wait()
	vCover("completed")
	b, err := os.ReadFile(p)
	vAssert(err == nil && string(b) == string(data), "chunk incomplete after two concurrent writers finished")
}

// VerifC08_WriteFault_E: no process death, but one file-system call of StoreChunk fails - a write
// cut short at any byte count (ENOSPC/EIO), or a failing create, close-time rename or mkdir.
// Whatever StoreChunk reports, the chunk's name holds nothing or the complete storage bytes,
// and a nil return means the complete chunk is there.
func VerifC08_WriteFault_E() {
	unc := vChoose("uncompressed", 2) == 1
	base := vTempDir()
	s, _ := NewLocalStore(base, StoreOptions{Uncompressed: unc})
	data := vBytes("data", 3)
	c := NewChunk(data)
	id := c.ID()
	want := data
	if !unc {
		want, _ = Compress(data)
	}
	dir, p := s.nameFromID(id)
	switch vChoose("fault", 5) {
	case 0: // the write accepts a prefix of every possible length, then fails
		vFSShortWrite(0, vChoose("bytes-accepted", len(want)))
	case 1:
		vFSFault("write", 0)
	case 2:
		vFSFault("rename", 0)
	case 3:
		vFSFault("open", 0) // the only open of StoreChunk is the temp file
	case 4:
		vFSFault("mkdir", 0)
	}
	err := s.StoreChunk(c)
	vCover("returned")
	b, rerr := os.ReadFile(p)
	if rerr == nil {
		vAssert(vEqBytes(b, want), "a partially written chunk is visible under the chunk's name after a failed write")
	} else {
		vAssert(os.IsNotExist(rerr), "chunk path unreadable")
	}
	if err == nil {
		vAssert(rerr == nil, "StoreChunk returned nil but the chunk file is not there")
	} else {
		vCover("fault-reported")
		// whatever a failed StoreChunk leaves behind is a prunable temp file
		for _, f := range vFSList(base) {
			if f == dir || f == p {
				continue
			}
			vAssert(strings.HasPrefix(f, dir+"/"+tmpChunkPrefix), "a failed StoreChunk left a file that is neither the chunk nor a prunable temp file")
		}
	}
}

// VerifC08_InPlaceCrashRerun_E: an in-place extract (AssembleFile on the final path) dies before
// its k-th file-system mutation; the very same extract is then run again on what is left
// (partial target, scratch files of the dead run): it completes with the correct output.
func VerifC08_InPlaceCrashRerun_E() {
	vSchedFixed(true)
	vPreempt(0)
	st := &verifStore{}
	idx := Index{Index: FormatIndex{FeatureFlags: CaFormatSHA512256, ChunkSizeMin: 1, ChunkSizeAvg: 1, ChunkSizeMax: 1}}
	blob := []byte{0x41, 0x00, 0x42} // a null chunk in the middle: the null-chunk seed is in play
	for c := range blob {
		id := st.add(blob[c : c+1])
		idx.Chunks = append(idx.Chunks, IndexChunk{ID: id, Start: uint64(c), Size: 1})
	}
	dir := vTempDir()
	target := dir + "/out"
	if vChoose("prior-garbage", 2) == 1 {
		os.WriteFile(target, []byte("zzzz"), 0644)
	}
	k := vChoose("crash-before-mutation", 10)
	vCrashAt(k, -1, func() {
		vCover("post-mortem")
		_, err := AssembleFile(context.Background(), target, idx, st, nil, AssembleOptions{N: 1})
		vAssert(err == nil, "the extract that died cannot be re-run to completion on the same target")
		b, rerr := os.ReadFile(target)
		vAssert(rerr == nil && string(b) == string(blob), "the re-run extract reported success with wrong output")
	})
	_, err := AssembleFile(context.Background(), target, idx, st, nil, AssembleOptions{N: 1})
	vCover("completed")
	vAssert(err == nil, "extract from a complete store failed")
}

// VerifC08_ExtractCancelled_E: "the destination keeps its previous state" also when the extract
// is stopped by a cancellation instead of a crash: AssembleFile under a cancellation at any
// scheduling point never reports success for an incomplete file (the body is C07's), which is
// what lets writeWithTmpFile decide between renaming and removing its temp file.
func VerifC08_ExtractCancelled_E() { VerifC07_AssembleFile() }
