package desync

// C07: a cancelled operation never reports success unless its work is complete.
//
// A second goroutine calls cancel(); when it runs is a scheduler choice of the
// engine, so the cancellation instant ranges over every synchronisation point
// of the operation (before start, between any two jobs, after the last job).

import (
	"bytes"
	"context"
	"os"
)

func verifConcreteBlob(k int) (string, []byte, Index, *verifStore) {
	dir := vTempDir()
	name := dir + "/blob"
	st := &verifStore{}
	idx := Index{Index: FormatIndex{FeatureFlags: CaFormatSHA512256, ChunkSizeMin: 1, ChunkSizeAvg: 1, ChunkSizeMax: 1}}
	var blob []byte
	for c := 0; c < k; c++ {
		data := []byte{byte(0x41 + c)}
		id := st.add(data)
		idx.Chunks = append(idx.Chunks, IndexChunk{ID: id, Start: uint64(len(blob)), Size: 1})
		blob = append(blob, data...)
	}
	os.WriteFile(name, blob, 0644)
	return name, blob, idx, st
}

func verifCancelLater() (context.Context, context.CancelFunc) {
	ctx, cancel := context.WithCancel(context.Background())
	if vChoose("cancel-before-start", 2) == 1 {
		cancel()
	} else {
		go cancel()
	}
	return ctx, cancel
}

func verifWorkers() int {
	if vTier() > 0 {
		return 1 + vChoose("workers", 2)
	}
	return 1
}

func VerifC07_VerifyIndex() {
	k := 2 + vChoose("chunks", 2)
	name, _, idx, _ := verifConcreteBlob(k)
	idx.Chunks[k-1].ID[0] ^= 1 // the last chunk does not match: a complete verification must fail
	ctx, cancel := verifCancelLater()
	defer cancel()
	err := VerifyIndex(ctx, name, idx, verifWorkers(), NullProgressBar{})
	vCover("returned")
	vAssert(err != nil, "VerifyIndex reported success although not every chunk was verified")
}

func VerifC07_ChopFile() {
	k := 2 + vChoose("chunks", 2)
	name, _, idx, _ := verifConcreteBlob(k)
	dst := &verifStore{yield: true}
	ctx, cancel := verifCancelLater()
	defer cancel()
	err := ChopFile(ctx, name, idx.Chunks, dst, verifWorkers(), NullProgressBar{})
	vCover("returned")
	if err == nil {
		for _, c := range idx.Chunks {
			_, ok := dst.find(c.ID)
			vAssert(ok, "ChopFile reported success although a chunk is not in the store")
		}
	}
}

func VerifC07_Copy() {
	k := 2 + vChoose("chunks", 2)
	_, _, idx, src := verifConcreteBlob(k)
	dst := &verifStore{yield: true}
	var ids []ChunkID
	for _, c := range idx.Chunks {
		ids = append(ids, c.ID)
	}
	ctx, cancel := verifCancelLater()
	defer cancel()
	err := Copy(ctx, ids, src, dst, verifWorkers(), NullProgressBar{})
	vCover("returned")
	if err == nil {
		for _, id := range ids {
			_, ok := dst.find(id)
			vAssert(ok, "Copy reported success although a chunk is not in the target store")
		}
	}
}

func VerifC07_AssembleFile() {
	k := 2 + vChoose("chunks", 2)
	_, blob, idx, st := verifConcreteBlob(k)
	st.yield = true
	dir := vTempDir()
	target := dir + "/out"
	ctx, cancel := verifCancelLater()
	defer cancel()
	_, err := AssembleFile(ctx, target, idx, st, nil, AssembleOptions{N: verifWorkers(), InvalidSeedAction: InvalidSeedActionBailOut})
	vCover("returned")
	if err == nil {
		got, rerr := os.ReadFile(target)
		vAssert(rerr == nil && string(got) == string(blob), "AssembleFile reported success although the file is incomplete")
	}
}

// verifByteStream is a 150 byte input that the real chunker (48/64/72) cuts into several chunks.
func verifByteStream() []byte {
	b := make([]byte, 150)
	for c := range b {
		b[c] = byte(c*31 + c/7)
	}
	return b
}

func VerifC07_ChunkStream() {
	data := verifByteStream()
	c, err := NewChunker(bytes.NewReader(data), 48, 64, 72)
	if err != nil {
		panic(err)
	}
	dst := &verifStore{yield: true}
	ctx, cancel := verifCancelLater()
	defer cancel()
	idx, err := ChunkStream(ctx, c, dst, verifWorkers())
	vCover("returned")
	if err == nil {
		vAssert(idx.Length() == int64(len(data)), "ChunkStream reported success with an index that does not cover the input")
		for _, ch := range idx.Chunks {
			_, ok := dst.find(ch.ID)
			vAssert(ok, "ChunkStream reported success although a chunk is not in the store")
		}
	}
}

func VerifC07_IndexFromFile() {
	data := verifByteStream()
	dir := vTempDir()
	name := dir + "/in"
	os.WriteFile(name, data, 0644)
	ctx, cancel := verifCancelLater()
	defer cancel()
	idx, _, err := IndexFromFile(ctx, name, verifWorkers(), 48, 64, 72, NullProgressBar{})
	vCover("returned")
	if err == nil {
		vAssert(idx.Length() == int64(len(data)), "IndexFromFile reported success with an index that does not cover the input")
	}
}

// VerifC07_TarUntar: packing and unpacking with a cancelled context.
func VerifC07_TarUntar() {
	vSchedFixed(true)
	vPreempt(0)
	root := vTempDir()
	os.Mkdir(root+"/src", 0755)
	os.Mkdir(root+"/dst", 0755)
	os.WriteFile(root+"/src/a", []byte("A"), 0644)
	os.WriteFile(root+"/src/b", []byte("B"), 0644)
	var archive bytes.Buffer
	vAssert(Tar(context.Background(), &archive, NewLocalFS(root+"/src", LocalFSOptions{})) == nil, "Tar failed")
	ctx, cancel := context.WithCancel(context.Background())
	cancel()
	var partial bytes.Buffer
	err := Tar(ctx, &partial, NewLocalFS(root+"/src", LocalFSOptions{}))
	vCover("tar-returned")
	if err == nil {
		vAssert(bytes.Equal(partial.Bytes(), archive.Bytes()), "Tar with a cancelled context reported success with an incomplete archive")
	}
	err = UnTar(ctx, bytes.NewReader(archive.Bytes()), NewLocalFS(root+"/dst", LocalFSOptions{}))
	vCover("untar-returned")
	if err == nil {
		a, e1 := os.ReadFile(root + "/dst/a")
		b, e2 := os.ReadFile(root + "/dst/b")
		vAssert(e1 == nil && e2 == nil && string(a) == "A" && string(b) == "B", "UnTar with a cancelled context reported success without unpacking everything")
	}
}

// VerifC07_UnTarIndex: the chunked unpack path; the cancelled assembler closes the pipe,
// which must not look like a clean end of the archive.
func VerifC07_UnTarIndex() {
	root := vTempDir()
	os.Mkdir(root+"/src", 0755)
	os.Mkdir(root+"/dst", 0755)
	os.WriteFile(root+"/src/a", []byte("A"), 0644)
	os.WriteFile(root+"/src/b", []byte("B"), 0644)
	var archive bytes.Buffer
	vSchedFixed(true)
	vAssert(Tar(context.Background(), &archive, NewLocalFS(root+"/src", LocalFSOptions{})) == nil, "Tar failed")
	vSchedFixed(false)
	data := archive.Bytes()
	// two chunks: cut in the middle of an element, or exactly on element boundaries (after the
	// root entry, after the first file's node) - a stream that ends there looks complete to a decoder
	cut := []int{len(data) / 2, 64, 163}[vChoose("chunk-boundary", 3)]
	vFSYield(false) // only the pipeline's own synchronisation points are cancellation instants here
	// the pipeline's goroutines hand over deterministically when one blocks; what is explored
	// is where the cancelling goroutine preempts that run (every synchronisation point)
	vSchedBlockFixed(true) // (all schedules of this five-goroutine pipeline within the preemption bound did not finish within the time budget)
	st := &verifStore{yield: true} // a store request takes time: the cancellation can arrive while a chunk is being fetched
	idx := Index{Index: FormatIndex{FeatureFlags: CaFormatSHA512256 | TarFeatureFlags, ChunkSizeMin: 1, ChunkSizeAvg: 1, ChunkSizeMax: uint64(len(data))}}
	for _, r := range [][2]int{{0, cut}, {cut, len(data)}} {
		id := st.add(data[r[0]:r[1]])
		idx.Chunks = append(idx.Chunks, IndexChunk{ID: id, Start: uint64(r[0]), Size: uint64(r[1] - r[0])})
	}
	ctx, cancel := verifCancelLater()
	defer cancel()
	err := UnTarIndex(ctx, NewLocalFS(root+"/dst", LocalFSOptions{}), idx, st, 1, NullProgressBar{})
	vCover("returned")
	if err == nil {
		a, e1 := os.ReadFile(root + "/dst/a")
		b, e2 := os.ReadFile(root + "/dst/b")
		vAssert(e1 == nil && e2 == nil && string(a) == "A" && string(b) == "B", "UnTarIndex reported success although the tree was not unpacked completely")
	}
}
