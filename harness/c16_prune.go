package desync

// C16: prune and verify remove exactly what they should (local store).

import (
	"bytes"
	"context"
	"os"
	"path/filepath"
	"strings"
)

type verifPlanted struct {
	path     string
	kind     int // template
	id       ChunkID
	ownChunk bool // canonical chunk file of the store's own format
	temp     bool
}

// verifPlant puts one file into the store according to a solver-chosen template.
func verifPlant(base string, unc bool, n int) verifPlanted {
	data := []byte{byte(0x30 + n), 0x55}
	c := NewChunk(data)
	id := c.ID()
	hx := verifHexOf(id[:])
	own, other := ".cacnk", ""
	if unc {
		own, other = "", ".cacnk"
	}
	dir := base + "/" + hx[0:4]
	kind := verifSymChoice("file-kind", 8)
	p := verifPlanted{kind: kind, id: id}
	switch kind {
	case 0: // canonical chunk of the store's own format
		p.path, p.ownChunk = dir+"/"+hx+own, true
	case 1: // the same chunk in the other format
		p.path = dir + "/" + hx + other
	case 2: // abandoned temporary chunk file
		p.path, p.temp = dir+"/"+tmpChunkPrefix+".123", true
	case 3: // junk file with an unrelated name
		p.path = dir + "/README"
	case 4: // junk file whose name ends like a chunk but is no ID
		p.path = dir + "/nothex" + own + ".bak"
	case 5: // file directly in the base directory
		p.path = base + "/index.caibx"
	case 6: // a chunk-named file in the wrong prefix directory (not a file the store would ever read)
		p.path = base + "/zzzz/" + hx + own
	case 7: // a chunk-named file of a nested tree (backup copy, another store below this one)
		p.path = base + "/backup/" + hx[0:4] + "/" + hx + own
	}
	os.MkdirAll(filepath.Dir(p.path), 0755)
	content := data
	if strings.HasSuffix(p.path, ".cacnk") {
		content, _ = Compress(data)
	}
	os.WriteFile(p.path, content, 0644)
	return p
}

func VerifC16_LocalPrune() {
	unc := vChoose("uncompressed", 2) == 1
	nfiles := 2
	if vTier() > 0 {
		nfiles = 3
	}
	base := vTempDir()
	s, _ := NewLocalStore(base, StoreOptions{Uncompressed: unc})
	var planted []verifPlanted
	keep := map[ChunkID]struct{}{}
	for n := 0; n < nfiles; n++ {
		p := verifPlant(base, unc, n)
		planted = append(planted, p)
		if verifSymChoice("referenced", 2) == 1 {
			keep[p.id] = struct{}{}
		}
	}
	if verifSymChoice("keep-absent-id", 2) == 1 {
		keep[verifID(0xEE)] = struct{}{} // an ID that is not in the store at all
	}
	err := s.Prune(context.Background(), keep)
	vCover("prune-returned")
	for _, p := range planted {
		_, statErr := os.Stat(p.path)
		gone := os.IsNotExist(statErr)
		_, referenced := keep[p.id]
		switch {
		case p.temp:
			if err == nil {
				vAssert(gone, "prune reported success but left an abandoned temporary chunk file")
			}
		case p.ownChunk && !referenced:
			if err == nil {
				vAssert(gone, "prune reported success but left an unreferenced chunk of the store's own format")
			}
		case p.ownChunk && referenced:
			vAssert(!gone, "prune deleted a referenced chunk")
		default:
			vAssert(!gone, "prune deleted a file that is not a chunk of the store's own format (other format / non-chunk)")
		}
	}
}

func VerifC16_LocalVerify() {
	unc := vChoose("uncompressed", 2) == 1
	repair := vChoose("repair", 2) == 1
	base := vTempDir()
	s, _ := NewLocalStore(base, StoreOptions{Uncompressed: unc})
	o, _ := NewLocalStore(base, StoreOptions{Uncompressed: !unc})
	type item struct {
		path string
		bad  bool
		own  bool
	}
	var items []item
	for n := 0; n < 2; n++ {
		c := NewChunk([]byte{byte(0x40 + n), 1})
		st := s
		own := verifSymChoice("own-format", 2) == 1
		if !own {
			st = o
		}
		st.StoreChunk(c)
		_, p := st.nameFromID(c.ID())
		bad := verifSymChoice("damaged", 2) == 1
		if bad {
			// overwrite with a valid object of other data (passes decompression, fails the ID check)
			other := []byte{0x7f}
			if strings.HasSuffix(p, ".cacnk") {
				other, _ = Compress(other)
			}
			os.WriteFile(p, other, 0644)
		}
		items = append(items, item{p, bad, own})
	}
	var out bytes.Buffer
	n := 1 + vChoose("workers", 2)
	err := s.Verify(context.Background(), n, repair, &out)
	vCover("verify-returned")
	vAssert(err == nil, "verify failed on a readable store")
	for _, it := range items {
		_, statErr := os.Stat(it.path)
		gone := os.IsNotExist(statErr)
		if it.own && it.bad && repair {
			vAssert(gone, "verify --repair left a chunk that does not match its ID")
		} else {
			vAssert(!gone, "verify removed a chunk it should not touch (valid, other format, or no repair requested)")
		}
	}
}

// VerifC16_LocalVerifyStray: beside chunk 0 in its proper place there is a file named after it
// in a directory the store never reads (wrong prefix directory, or the copy of a store nested
// below this one), whose content does or does not match the name.  It is not a chunk of this
// store: verify judges chunk 0 by its own file, and never removes the stray.
func VerifC16_LocalVerifyStray() {
	unc := vChoose("uncompressed", 2) == 1
	repair := vChoose("repair", 2) == 1
	base := vTempDir()
	s, _ := NewLocalStore(base, StoreOptions{Uncompressed: unc})
	c := NewChunk([]byte{0x40, 1})
	s.StoreChunk(c)
	_, p := s.nameFromID(c.ID())
	bad := verifSymChoice("damaged", 2) == 1
	if bad {
		other := []byte{0x7f}
		if !unc {
			other, _ = Compress(other)
		}
		os.WriteFile(p, other, 0644)
	}
	strayKind := 1 + vChoose("stray", 3)
	var stray string
	{
		id0 := c.ID()
		hx := verifHexOf(id0[:])
		ext := CompressedChunkExt
		if unc {
			ext = UncompressedChunkExt
		}
		stray = base + "/zzzz/" + hx + ext
		if strayKind == 3 {
			stray = base + "/backup/" + hx[0:4] + "/" + hx + ext
		}
		content := []byte{0x40, 1}
		if strayKind >= 2 {
			content = []byte{0x7e} // does not hash to the ID it is named after
		}
		if !unc {
			content, _ = Compress(content)
		}
		os.MkdirAll(filepath.Dir(stray), 0755)
		os.WriteFile(stray, content, 0644)
	}
	var out bytes.Buffer
	n := 1 + vChoose("workers", 2)
	err := s.Verify(context.Background(), n, repair, &out)
	vCover("verify-returned")
	vAssert(err == nil, "verify failed on a readable store")
	_, statErr := os.Stat(stray)
	vAssert(statErr == nil, "verify removed a chunk-named file outside the store's layout")
	_, statErr = os.Stat(p)
	gone := os.IsNotExist(statErr)
	if bad && repair {
		vAssert(gone, "verify --repair left a chunk that does not match its ID")
	} else {
		vAssert(!gone, "verify removed a chunk it should not touch (valid, or no repair requested)")
	}
	// (the text of the report goes through fmt, which the engine stubs: not decided here)
}

// VerifC16_Cancelled: Verify (with repair) and Prune while another goroutine cancels the
// context at any scheduling point: a nil result still means the whole job was done - every
// damaged chunk removed, every unreferenced chunk and temp file gone.
func VerifC16_Cancelled() {
	unc := vChoose("uncompressed", 2) == 1
	base := vTempDir()
	s, _ := NewLocalStore(base, StoreOptions{Uncompressed: unc})
	var paths []string
	var bad []bool
	for n := 0; n < 2; n++ {
		c := NewChunk([]byte{byte(0x40 + n), 1})
		s.StoreChunk(c)
		_, p := s.nameFromID(c.ID())
		damaged := verifSymChoice("damaged", 2) == 1
		if damaged {
			other := []byte{0x7f}
			if !unc {
				other, _ = Compress(other)
			}
			os.WriteFile(p, other, 0644)
		}
		paths, bad = append(paths, p), append(bad, damaged)
	}
	ctx, cancel := verifCancelLater()
	defer cancel()
	if vChoose("operation", 2) == 0 {
		var out bytes.Buffer
		err := s.Verify(ctx, 1, true, &out)
		vCover("verify-returned")
		if err == nil {
			for k, p := range paths {
				_, statErr := os.Stat(p)
				if bad[k] {
					vAssert(os.IsNotExist(statErr), "verify --repair reported success after a cancellation but a damaged chunk is still in the store")
				} else {
					vAssert(statErr == nil, "verify removed a valid chunk")
				}
			}
		}
	} else {
		err := s.Prune(ctx, map[ChunkID]struct{}{})
		vCover("prune-returned")
		if err == nil {
			for _, p := range paths {
				_, statErr := os.Stat(p)
				vAssert(os.IsNotExist(statErr), "prune reported success after a cancellation but an unreferenced chunk is still in the store")
			}
		}
	}
}
