package desync

// C05, further routes: the tar-stream source and the chunked (index + store) route.

import (
	gnutar "archive/tar"
	"bytes"
	"context"
	"os"
	"time"
)

// VerifC05_TarStream: a GNU tar stream (written with archive/tar itself) is the source:
// NewTarReader -> Tar -> UnTar into a recording writer.  Every entry arrives with the
// header's path, type, permission and set-id/sticky bits, owner, time, content, link target
// and device numbers.
func VerifC05_TarStream() {
	perm := verifPerms[vChoose("perm", len(verifPerms))]
	uid, gid := 1000+vChoose("uid", 2)*70000, vChoose("gid", 2)*5
	mt := time.Unix(int64(1600000000+vChoose("mtime", 2)*86400), 0)
	content := vBytes("content", 2)
	targets := []string{"d/f", "./f", "sub/", "a//b", "a/../f", "..", "/abs/./x"} // a link target is opaque text, not a path to tidy
	target := targets[vChoose("link-target", len(targets))]
	major, minor := int64(4+vChoose("major", 2)*200), int64(vChoose("minor", 2)*300)
	var tarbuf bytes.Buffer
	tw := gnutar.NewWriter(&tarbuf)
	w := func(h *gnutar.Header, body []byte) {
		h.Uid, h.Gid, h.ModTime, h.Format = uid, gid, mt, gnutar.FormatGNU
		vAssert(tw.WriteHeader(h) == nil, "archive/tar refused the header")
		if body != nil {
			tw.Write(body)
		}
	}
	w(&gnutar.Header{Typeflag: gnutar.TypeDir, Name: "d/", Mode: 0750}, nil)
	w(&gnutar.Header{Typeflag: gnutar.TypeReg, Name: "d/f", Mode: int64(perm), Size: 2}, content)
	w(&gnutar.Header{Typeflag: gnutar.TypeSymlink, Name: "l", Linkname: target, Mode: 0777}, nil)
	w(&gnutar.Header{Typeflag: gnutar.TypeChar, Name: "n", Mode: 0600, Devmajor: major, Devminor: minor}, nil)
	tw.Close()

	var archive bytes.Buffer
	err := Tar(context.Background(), &archive, NewTarReader(bytes.NewReader(tarbuf.Bytes()), TarReaderOptions{AddRoot: true}))
	vAssert(err == nil, "Tar failed on a tar stream")
	rec := &verifRecFS{}
	err = UnTar(context.Background(), bytes.NewReader(archive.Bytes()), rec)
	vCover("decoded")
	vAssert(err == nil, "UnTar failed on an archive this code just wrote")
	vAssert(len(rec.dirs) == 2 && len(rec.files) == 1 && len(rec.links) == 1 && len(rec.devs) == 1, "nodes lost or invented")
	if len(rec.dirs) != 2 || len(rec.files) != 1 || len(rec.links) != 1 || len(rec.devs) != 1 {
		return
	}
	d := rec.dirs[1]
	vAssert(d.Name == "d" && d.Mode == os.ModeDir|0750 && d.UID == uid && d.GID == gid && d.MTime.Equal(mt), "directory entry changed")
	g := rec.files[0]
	vAssert(g.Name == "d/f" && g.Mode == StatModeToFilemode(perm) && g.UID == uid && g.GID == gid, "file path, mode or owner changed")
	vAssert(g.MTime.Equal(mt), "file modification time changed")
	vAssert(vEqBytes(rec.data[0], content) && g.Size == 2, "file content or size changed")
	l := rec.links[0]
	vAssert(l.Name == "l" && l.Target == target && l.UID == uid && l.GID == gid && l.MTime.Equal(mt), "symlink changed")
	n := rec.devs[0]
	vAssert(n.Name == "n" && n.Major == uint64(major) && n.Minor == uint64(minor) && n.Mode == os.ModeDevice|os.ModeCharDevice|0600 && n.UID == uid, "device node changed")
}

// VerifC05_IndexRoundTrip: the chunked route.  The archive Tar wrote is cut into chunks at
// solver-chosen positions (chunk boundaries inside headers, names, payloads), put into a
// store, and unpacked with UnTarIndex (1-2 workers): the same nodes arrive.
func VerifC05_IndexRoundTrip() {
	vSchedBlockFixed(true) // the feeder/assembler pipeline keeps its order; worker completion order is free
	vPreempt(1)
	mt := time.Unix(0, vI64("mtime"))
	uid, gid := vInt("uid"), vInt("gid")
	vAssume(uid >= 0 && gid >= 0)
	root := &File{Name: ".", Path: ".", Mode: os.ModeDir | 0755, Uid: 1, Gid: 2, ModTime: mt}
	content := vBytes("content", 3)
	f := &File{Name: "f", Path: "f", Mode: 0644, Uid: uid, Gid: gid, ModTime: mt, Size: 3,
		Data: verifNopCloser{bytes.NewReader(content)}, Xattrs: map[string]string{"user.k": vStr("xattr-value", 2)}}
	l := &File{Name: "l", Path: "l", Mode: os.ModeSymlink | 0777, Uid: uid, Gid: gid, ModTime: mt, LinkTarget: "a/b"}
	var archive bytes.Buffer
	err := Tar(context.Background(), &archive, &verifTreeReader{files: []*File{root, f, l}})
	vAssert(err == nil, "Tar failed")
	data := archive.Bytes()
	// cut points: one of a few positions each, in element headers, inside the entry, inside payload and goodbye
	cands := []int{8, 16, 64, 65, 100, len(data) - 41, len(data) - 1}
	c1 := cands[vChoose("cut-1", len(cands))]
	c2 := cands[vChoose("cut-2", len(cands))]
	vAssume(c1 < c2 && c2 < len(data))
	st := &verifStore{}
	idx := Index{Index: FormatIndex{FeatureFlags: CaFormatSHA512256 | TarFeatureFlags, ChunkSizeMin: 1, ChunkSizeAvg: 1, ChunkSizeMax: uint64(len(data))}}
	start := 0
	for k, end := range []int{c1, c2, len(data)} {
		id := verifID(byte(0x50 + k))
		st.entries = append(st.entries, verifEntry{id: id, data: data[start:end]})
		idx.Chunks = append(idx.Chunks, IndexChunk{ID: id, Start: uint64(start), Size: uint64(end - start)})
		start = end
	}
	rec := &verifRecFS{}
	n := 1 + vChoose("workers", 2)
	err = UnTarIndex(context.Background(), rec, idx, st, n, NullProgressBar{})
	vCover("decoded")
	vAssert(err == nil, "UnTarIndex failed on an archive this code just wrote")
	vAssert(len(rec.dirs) == 1 && len(rec.files) == 1 && len(rec.links) == 1, "nodes lost or invented")
	if len(rec.dirs) != 1 || len(rec.files) != 1 || len(rec.links) != 1 {
		return
	}
	g := rec.files[0]
	vAssert(g.Name == "f" && g.Mode == f.Mode && g.UID == uid && g.GID == gid, "file path, mode or owner changed")
	vAssert(g.MTime.Equal(mt), "file modification time changed")
	vAssert(vEqBytes(rec.data[0], content) && g.Size == 3, "file content or size changed")
	vAssert(len(g.Xattrs) == 1 && g.Xattrs["user.k"] == f.Xattrs["user.k"], "extended attributes changed")
	vAssert(rec.links[0].Target == "a/b" && rec.links[0].Name == "l" && rec.links[0].UID == uid && rec.links[0].MTime.Equal(mt), "symlink changed")
}

type verifNopCloser struct{ *bytes.Reader }

func (verifNopCloser) Close() error { return nil }
