package desync

// C13.bst: the goodbye items are laid out as a complete binary search tree
// over (hash, offset): the in-order traversal of the implicit array tree
// (children 2i+1, 2i+2) is the sorted list and every slot is used.

func verifBSTInorder(tree []FormatGoodbyeItem, i int, out *[]FormatGoodbyeItem) {
	if i >= len(tree) {
		return
	}
	verifBSTInorder(tree, 2*i+1, out)
	*out = append(*out, tree[i])
	verifBSTInorder(tree, 2*i+2, out)
}

// VerifC13_BSTLayout: bst() on an arbitrary (symbolic) list of N items, every N in the bound.
func VerifC13_BSTLayout() {
	max := 40
	if vTier() > 0 {
		max = 200
	}
	n := vChoose("n", max+1)
	in := make([]FormatGoodbyeItem, n)
	want := make([]FormatGoodbyeItem, n)
	for k := range in {
		// hashes are concrete and already in order (the order is all the layout depends on;
		// the sorting itself is the subject of VerifC13_BSTSort); offsets and sizes are symbolic
		in[k] = FormatGoodbyeItem{Offset: vU64("off"), Size: vU64("size"), Hash: uint64(3*k + 1)}
		want[k] = in[k]
	}
	out := makeGoodbyeBST(in)
	vCover("bst-returned")
	in = want
	var ord []FormatGoodbyeItem
	verifBSTInorder(out, 0, &ord)
	ok := len(ord) == n
	for k := 0; k < n && k < len(ord); k++ {
		ok = vAnd(ok, ord[k] == in[k])
	}
	vAssert(ok, "in-order traversal of the array tree equals the input list")
}

// VerifC13_BSTSort: makeGoodbyeBST on unsorted symbolic items: result is a
// permutation whose in-order traversal is sorted by (hash, offset).
func VerifC13_BSTSort() {
	max := 3
	if vTier() > 0 {
		max = 4 // N=5: the permutation obligation runs into the 60 s solver limit on 7 paths
	}
	n := vChoose("n", max+1)
	in := make([]FormatGoodbyeItem, n)
	orig := make([]FormatGoodbyeItem, n)
	for k := range in {
		in[k] = FormatGoodbyeItem{Offset: vU64("off"), Size: vU64("size"), Hash: vU64("hash")}
		orig[k] = in[k]
	}
	out := makeGoodbyeBST(in)
	vCover("makeGoodbyeBST-returned")
	vAssert(len(out) == n, "same number of items")
	var ord []FormatGoodbyeItem
	verifBSTInorder(out, 0, &ord)
	vAssert(len(ord) == n, "every slot reachable")
	sorted := true
	for k := 1; k < len(ord); k++ {
		a, b := ord[k-1], ord[k]
		sorted = vAnd(sorted, vOr(a.Hash < b.Hash, vAnd(a.Hash == b.Hash, a.Offset <= b.Offset)))
	}
	vAssert(sorted, "in-order traversal sorted by (hash, offset)")
	// permutation: every input item occurs in the output at least as often as in the input (n small)
	for k := range orig {
		cntIn, cntOut := 0, 0
		for j := range orig {
			cntIn += vIteInt(orig[j] == orig[k], 1, 0)
			cntOut += vIteInt(out[j] == orig[k], 1, 0)
		}
		vAssert(cntIn == cntOut, "output is a permutation of the input")
	}
}
