package desync

// C04, index stores: what is written through an index store reads back as the same index.

import (
	"bytes"
	"io"
	"io/ioutil"
	"net/http"
)

func verifSameIndex(a, b Index, what string) {
	same := vAnd(a.Index.FeatureFlags == b.Index.FeatureFlags, vAnd(a.Index.ChunkSizeMin == b.Index.ChunkSizeMin,
		vAnd(a.Index.ChunkSizeAvg == b.Index.ChunkSizeAvg, a.Index.ChunkSizeMax == b.Index.ChunkSizeMax)))
	vAssert(len(a.Chunks) == len(b.Chunks), what+": chunk count changed")
	for k := 0; k < len(a.Chunks) && k < len(b.Chunks); k++ {
		same = vAnd(same, a.Chunks[k] == b.Chunks[k])
	}
	vAssert(same, what+": parameters or chunk table changed")
}

// VerifC04_IndexStores: a symbolic index goes through (0) a LocalIndexStore on the model file
// system, (1) the HTTP index client into the real index server over a local index store and
// back, (2) the HTTP index client against a scripted server whose first PUT attempts fail
// (status 503, or the connection dying after part of the body was read) before one succeeds:
// whenever StoreIndex reports success the stored bytes are the complete index.
func VerifC04_IndexStores() {
	vSchedFixed(true) // StoreIndex feeds the request body from a goroutine through a pipe: a sequential hand-off
	n := vChoose("chunks", 3)
	idx := verifSymIndex(n)
	verifDigestFor(idx.Index.FeatureFlags)
	switch vChoose("store", 4) {
	case 3: // an HTTP index store that serves a truncated index: reading it fails, like reading the file would
		var wire bytes.Buffer
		idx.WriteTo(&wire)
		cut := vChoose("bytes-served", wire.Len())
		rt := &verifRT{}
		rt.f = func(r *http.Request) (*http.Response, error) { return verifResp(200, wire.Bytes()[:cut]), nil }
		c := &RemoteHTTPIndex{verifHTTPStore(rt, StoreOptions{ErrorRetry: 1}).RemoteHTTPBase}
		_, err := c.GetIndex("a.caibx")
		vCover("truncated-get-returned")
		vAssert(err != nil, "a truncated index served over HTTP was accepted")
	case 0:
		dir := vTempDir()
		ls, err := NewLocalIndexStore(dir)
		vAssert(err == nil, "local index store")
		vAssert(ls.StoreIndex("a.caibx", idx) == nil, "LocalIndexStore.StoreIndex failed")
		back, err := ls.GetIndex("a.caibx")
		vAssert(err == nil, "LocalIndexStore.GetIndex failed on what StoreIndex wrote")
		if err == nil {
			vCover("local-read-back")
			verifSameIndex(idx, back, "local index store")
		}
		// a newer, shorter index stored under the same name replaces the file: its bytes are
		// exactly the new index's encoding (other tools locate the table from the tail)
		if n > 0 {
			short := Index{Index: idx.Index, Chunks: idx.Chunks[:n-1]}
			vAssert(ls.StoreIndex("a.caibx", short) == nil, "LocalIndexStore.StoreIndex failed on an existing name")
			var want bytes.Buffer
			short.WriteTo(&want)
			got, rerr := ioutil.ReadFile(dir + "/a.caibx")
			vAssert(rerr == nil && vEqBytes(got, want.Bytes()), "the file of a re-stored index is not the encoding of the new index (stale bytes of the old one?)")
		}
	case 1:
		ls, _ := NewLocalIndexStore(vTempDir())
		h := NewHTTPIndexHandler(ls, true, "")
		rt := &verifRT{}
		rt.f = func(r *http.Request) (*http.Response, error) {
			w := &verifRW{}
			h.ServeHTTP(w, r)
			if w.code == 0 {
				w.code = 200
			}
			return verifResp(w.code, w.body), nil
		}
		c := &RemoteHTTPIndex{verifHTTPStore(rt, StoreOptions{ErrorRetry: 1}).RemoteHTTPBase}
		vAssert(c.StoreIndex("a.caibx", idx) == nil, "StoreIndex through the index server failed")
		back, err := c.GetIndex("a.caibx")
		vAssert(err == nil, "GetIndex through the index server failed")
		if err == nil {
			vCover("http-read-back")
			verifSameIndex(idx, back, "http index store")
		}
		direct, err := ls.GetIndex("a.caibx")
		vAssert(err == nil, "the server did not store a readable index")
		if err == nil {
			verifSameIndex(idx, direct, "index stored by the server")
		}
	case 2:
		verifIndexPutRetry(idx)
	}
}

// verifIndexPutRetry: StoreIndex against a scripted server whose first attempts fail.
func verifIndexPutRetry(idx Index) {
	nfail := vChoose("failed-attempts", 3)
	var stored []byte
	rt := &verifRT{}
	rt.f = func(r *http.Request) (*http.Response, error) {
		if rt.calls <= nfail {
			if vChoose("failure-kind", 2) == 0 {
				io.CopyN(ioutil.Discard, r.Body, int64(vChoose("body-read-before-reset", 3)*20))
				return nil, verifTransportErr
			}
			io.Copy(ioutil.Discard, r.Body)
			return verifResp(503, nil), nil
		}
		stored, _ = ioutil.ReadAll(r.Body)
		return verifResp(200, nil), nil
	}
	c := &RemoteHTTPIndex{verifHTTPStore(rt, StoreOptions{ErrorRetry: 3}).RemoteHTTPBase}
	err := c.StoreIndex("a.caibx", idx)
	vCover("scripted-put-returned")
	vAssert(err == nil, "transient failures below the retry budget were visible")
	if err == nil {
		back, rerr := IndexFromReader(bytes.NewReader(stored))
		vAssert(rerr == nil, "StoreIndex reported success but the bytes the server stored are not a complete index")
		if rerr == nil {
			verifSameIndex(idx, back, "index stored after retries")
		}
	}
}

// VerifC14_IndexRetry: indexes over HTTP under transient failures below the retry budget -
// the PUT that finally succeeds carries the complete index, a GET delivers the index the
// server holds, and a 404 is reported as a missing object, not as success or a transport error.
func VerifC14_IndexRetry() {
	vSchedFixed(true)
	idx := verifSymIndex(vChoose("chunks", 2))
	verifDigestFor(idx.Index.FeatureFlags)
	if vChoose("op", 2) == 0 {
		verifIndexPutRetry(idx)
		return
	}
	var wire bytes.Buffer
	idx.WriteTo(&wire)
	nfail := vChoose("failed-attempts", 3)
	final := vChoose("final", 2)
	rt := &verifRT{}
	rt.f = func(r *http.Request) (*http.Response, error) {
		if rt.calls <= nfail {
			if vChoose("failure-kind", 2) == 0 {
				return nil, verifTransportErr
			}
			return verifResp(502, nil), nil
		}
		if final == 1 {
			return verifResp(404, nil), nil
		}
		return verifResp(200, wire.Bytes()), nil
	}
	c := &RemoteHTTPIndex{verifHTTPStore(rt, StoreOptions{ErrorRetry: 3}).RemoteHTTPBase}
	back, err := c.GetIndex("a.caibx")
	vCover("scripted-get-returned")
	if final == 1 {
		_, missing := err.(NoSuchObject)
		vAssert(missing, "a missing index is not reported as NoSuchObject")
		return
	}
	vAssert(err == nil, "transient failures below the retry budget were visible on GET")
	if err == nil {
		verifSameIndex(idx, back, "index fetched after retries")
	}
}

// VerifC04_IndexWriteFault_E: the write that carries the index to a local index store fails
// (whole, or after a prefix of any length was accepted): StoreIndex then reports the failure -
// a nil result means the file holds the complete encoding.  (engine-only: fault injection)
func VerifC04_IndexWriteFault_E() {
	n := vChoose("chunks", 3)
	idx := verifSymIndex(n)
	verifDigestFor(idx.Index.FeatureFlags)
	dir := vTempDir()
	ls, err := NewLocalIndexStore(dir)
	vAssert(err == nil, "local index store")
	var want bytes.Buffer
	idx.WriteTo(&want)
	switch vChoose("fault", 3) {
	case 0:
		vFSFault("write", 0)
	case 1:
		vFSShortWrite(0, vChoose("bytes-accepted", want.Len()))
	case 2: // no fault (control)
	}
	err = ls.StoreIndex("a.caibx", idx)
	vCover("store-returned")
	if err == nil {
		got, rerr := ioutil.ReadFile(dir + "/a.caibx")
		vAssert(rerr == nil && vEqBytes(got, want.Bytes()), "StoreIndex reported success but the file does not hold the complete index (write error lost?)")
	} else {
		vCover("fault-reported")
	}
}

// verifPieceReader hands out at most k bytes per Read (a pipe, a socket, stdin: readers that
// deliver a stream in pieces that end anywhere, also inside an 8-byte field).
type verifPieceReader struct {
	b []byte
	k int
}

func (r *verifPieceReader) Read(p []byte) (int, error) {
	if len(r.b) == 0 {
		return 0, io.EOF
	}
	n := r.k
	if n > len(p) {
		n = len(p)
	}
	if n > len(r.b) {
		n = len(r.b)
	}
	copy(p, r.b[:n])
	r.b = r.b[n:]
	return n, nil
}

// VerifC04_Fragmented: reading an index does not depend on how the reader fragments the
// stream: pieces of 1, 3, 7, 13 or 100 bytes give the same table as one piece.
func VerifC04_Fragmented() {
	n := vChoose("chunks", 3)
	idx := verifSymIndex(n)
	verifDigestFor(idx.Index.FeatureFlags)
	var buf bytes.Buffer
	idx.WriteTo(&buf)
	k := []int{1, 3, 7, 13, 100}[vChoose("piece-size", 5)]
	back, err := IndexFromReader(&verifPieceReader{b: buf.Bytes(), k: k})
	vCover("read")
	vAssert(err == nil, "a valid index was rejected because the reader delivered it in pieces")
	if err == nil {
		verifSameIndex(idx, back, "index read in pieces")
	}
}
