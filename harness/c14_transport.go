package desync

// C14: remote transports preserve data and report missing vs. failed truthfully.

import (
	"bytes"
	"context"
	"errors"
	"io"
	"io/ioutil"
	"net/http"
	"net/url"
)

// verifRT is the harness side of the HTTP boundary: the scripted server.
type verifRT struct {
	f     func(*http.Request) (*http.Response, error)
	calls int
}

func (t *verifRT) RoundTrip(r *http.Request) (*http.Response, error) {
	t.calls++
	return t.f(r)
}

func verifResp(code int, body []byte) *http.Response {
	return &http.Response{StatusCode: code, Body: ioutil.NopCloser(bytes.NewReader(body)), Header: http.Header{}}
}

func verifHTTPStore(rt http.RoundTripper, opt StoreOptions) *RemoteHTTP {
	u := &url.URL{Scheme: "http", Host: "server", Path: "/"}
	return &RemoteHTTP{&RemoteHTTPBase{location: u, client: &http.Client{Transport: rt}, opt: opt, converters: opt.converters()}}
}

var verifTransportErr = errors.New("verif: connection reset")

// verifShortBody delivers one byte and then fails like a connection that died mid-body.
type verifShortBody struct{ n int }

func (b *verifShortBody) Read(p []byte) (int, error) {
	if b.n == 0 && len(p) > 0 {
		b.n++
		p[0] = 0x61
		return 1, nil
	}
	return 0, io.ErrUnexpectedEOF
}

// VerifC14_Retry: a scripted sequence of server responses (status or transport error per
// attempt, chosen by the solver) against GetChunk / HasChunk / StoreChunk.
func VerifC14_Retry() {
	retry := vChoose("error-retry", 4)
	final := verifSymChoice("final-response", 4) // what the server answers once it stops failing
	nfail := vChoose("transient-failures", 4)    // failures before that
	good := NewChunk([]byte{0x61})
	id := good.ID()
	rt := &verifRT{}
	rt.f = func(r *http.Request) (*http.Response, error) {
		if rt.calls <= nfail {
			switch verifSymChoice("failure-kind", 3) {
			case 0: // the connection fails before a response arrives
				return nil, verifTransportErr
			case 1: // the response is cut off in the middle of the body
				return &http.Response{StatusCode: 200, Body: ioutil.NopCloser(&verifShortBody{}), Header: http.Header{}}, nil
			}
			return verifResp(500+vChoose("5xx", 2)*3, nil), nil
		}
		switch final {
		case 0:
			if r.Method == "PUT" {
				io.Copy(ioutil.Discard, r.Body)
				return verifResp(200, nil), nil
			}
			return verifResp(200, []byte{0x61}), nil
		case 1:
			return verifResp(404, nil), nil
		case 2:
			return verifResp(403, []byte("forbidden")), nil
		}
		return verifResp(400, nil), nil
	}
	s := verifHTTPStore(rt, StoreOptions{ErrorRetry: retry, Uncompressed: true})
	budget := retry
	if budget < 1 {
		budget = 1
	}
	op := vChoose("op", 3)
	var err error
	var c *Chunk
	var has bool
	switch op {
	case 0:
		c, err = s.GetChunk(id)
	case 1:
		has, err = s.HasChunk(id)
	case 2:
		err = s.StoreChunk(good)
	}
	vCover("request-returned")
	vAssert(rt.calls <= budget, "more attempts than the retry budget")
	_, missing := err.(ChunkMissing)
	if nfail >= budget {
		vAssert(err != nil, "a run of failures that exhausts the retry budget reported as success")
		vAssert(!missing, "transport failure reported as missing")
		return
	}
	// the transient failures are invisible: the outcome is that of the final response
	vAssert(rt.calls == nfail+1, "attempt count differs from failures+1")
	switch final {
	case 0:
		vAssert(err == nil, "a run of transient failures shorter than the budget was visible")
		if op == 0 {
			verifDelivered(id, c, err, "RemoteHTTP.GetChunk")
		}
		if op == 1 {
			vAssert(has, "present chunk reported absent")
		}
	case 1:
		switch op {
		case 0:
			vAssert(missing && c == nil, "404 not reported as ChunkMissing")
		case 1:
			vAssert(err == nil && !has, "404 on HEAD not reported as absent")
		case 2:
			vAssert(err != nil, "404 on PUT reported as success")
		}
	default:
		vAssert(err != nil && !missing, "a failure status reported as success or as missing")
		vAssert(!has, "a failure status reported as present")
	}
}

// VerifC03_HTTP: the server returns arbitrary bytes with status 200.
func VerifC03_HTTP() {
	unc := vChoose("uncompressed", 2) == 1
	body := vBytes("body", vChoose("len", 8))
	good := NewChunk([]byte{0x61, 0x62})
	id := good.ID()
	rt := &verifRT{f: func(r *http.Request) (*http.Response, error) { return verifResp(200, body), nil }}
	s := verifHTTPStore(rt, StoreOptions{ErrorRetry: 1, Uncompressed: unc})
	c, err := s.GetChunk(id)
	vCover("get-returned")
	verifDelivered(id, c, err, "RemoteHTTP.GetChunk")
}

// VerifC14_Matrix: client x server x upstream compression settings joined in-process at
// http.Client.Do.  Two data modes: (a) concrete chunk with verification on at every hop,
// (b) symbolic chunk bytes under a fixed ID with verification off at every hop (the ID of
// symbolic data is a symbolic file name, which would put the URL and path code, not the
// converters, in the solver's way).  Bytes arrive unchanged whenever the transfer succeeds.
func VerifC14_Matrix() {
	symbolic := vChoose("symbolic-data", 2) == 1
	clientUnc := vChoose("client-uncompressed", 2) == 1
	serverUnc := vChoose("server-uncompressed", 2) == 1
	upstreamUnc := vChoose("upstream-uncompressed", 2) == 1
	mk := func(name string, fallback []byte, fake byte) ([]byte, *Chunk) {
		if !symbolic {
			return fallback, NewChunk(fallback)
		}
		d := vBytes(name, len(fallback))
		c, _ := NewChunkWithID(verifID(fake), d, true)
		return d, c
	}
	data, c := mk("chunk", []byte{0x61, 0x00}, 0x77)
	base := vTempDir()
	up, _ := NewLocalStore(base, StoreOptions{Uncompressed: upstreamUnc, SkipVerify: symbolic})
	id := c.ID()
	vAssert(up.StoreChunk(c) == nil, "upstream store")
	sconv := Converters{Compressor{}}
	if serverUnc {
		sconv = Converters{}
	}
	h := NewHTTPHandler(up, true, symbolic, sconv, "")
	rt := &verifRT{}
	rt.f = func(r *http.Request) (*http.Response, error) {
		w := &verifRW{}
		h.ServeHTTP(w, r)
		return verifResp(w.code, w.body), nil
	}
	s := verifHTTPStore(rt, StoreOptions{ErrorRetry: 1, Uncompressed: clientUnc, SkipVerify: symbolic})
	got, err := s.GetChunk(id)
	vCover("get-returned")
	if clientUnc == serverUnc {
		vAssert(err == nil, "transfer failed although client and server agree on the format")
	}
	if err == nil {
		vCover("transferred")
		b, derr := got.Data()
		if derr == nil {
			vAssert(vEqBytes(b, data), "chunk bytes changed in transport")
		} else {
			vAssert(clientUnc != serverUnc, "delivered chunk cannot be decoded although client and server agree")
		}
	}
	has, err := s.HasChunk(id)
	if clientUnc == serverUnc {
		vAssert(err == nil && has, "HEAD does not find the chunk")
	}
	// upload through the server into the upstream store and read it back directly; the chunk is
	// fresh, or was read from a local store of either format (it then carries that store's
	// storage bytes, which must not be sent as they are to a store of the other format)
	data2, c2 := mk("chunk2", []byte{0x62}, 0x78)
	if src := vChoose("upload-source", 3); src > 0 {
		from, _ := NewLocalStore(vTempDir(), StoreOptions{Uncompressed: src == 2, SkipVerify: symbolic})
		vAssert(from.StoreChunk(c2) == nil, "source store")
		var gerr error
		c2, gerr = from.GetChunk(c2.ID())
		vAssert(gerr == nil, "source store read")
	}
	if clientUnc == serverUnc {
		vAssert(s.StoreChunk(c2) == nil, "upload failed")
		back, err := up.GetChunk(c2.ID())
		vAssert(err == nil, "uploaded chunk not in the upstream store")
		if err == nil {
			b, _ := back.Data()
			vAssert(vEqBytes(b, data2), "uploaded chunk bytes changed")
		}
	}
}

// VerifC14_ServerFailure: the chunk server in front of an upstream store that is missing the
// chunk, fails the call, or holds a chunk file that cannot be decoded (a compressed upstream
// behind a server that must convert).  On the wire a failure is a 5xx and a miss a 404 - never
// 200 - and the client (verifying or not) reports it as an error that is not ChunkMissing.
func VerifC14_ServerFailure() {
	clientUnc := vChoose("client-uncompressed", 2) == 1
	skip := vChoose("client-skip-verify", 2) == 1
	good := NewChunk([]byte{0x61, 0x62})
	id := good.ID()
	var up Store
	kind := vChoose("upstream", 5)
	switch kind {
	case 4: // a verifying compressed local store whose chunk file is another chunk's valid object: ChunkInvalid
		ls, _ := NewLocalStore(vTempDir(), StoreOptions{})
		other := NewChunk([]byte{0x63})
		vAssert(ls.StoreChunk(good) == nil && ls.StoreChunk(other) == nil, "upstream store")
		_, p := ls.nameFromID(id)
		_, po := ls.nameFromID(other.ID())
		b, _ := ioutil.ReadFile(po)
		ioutil.WriteFile(p, b, 0644)
		up = ls
	case 0: // present and intact (the control)
		st := &verifStore{}
		st.add([]byte{0x61, 0x62})
		up = st
	case 1: // missing
		up = &verifStore{}
	case 2: // the upstream call fails
		st := &verifStore{failGet: map[int]bool{0: true}, failHas: map[int]bool{0: true}, failPut: map[int]bool{0: true}}
		st.add([]byte{0x61, 0x62})
		up = st
	case 3: // a compressed local store whose chunk file does not decompress, read without verification
		ls, _ := NewLocalStore(vTempDir(), StoreOptions{SkipVerify: true})
		vAssert(ls.StoreChunk(good) == nil, "upstream store")
		_, p := ls.nameFromID(id)
		ioutil.WriteFile(p, vBytes("garbage", 3), 0644)
		up = ls
	}
	op := vChoose("op", 3)
	if op != 2 && vChoose("behind-router", 2) == 1 && kind != 3 && kind != 4 { // (a router is read-only: no uploads through it)
		// a read-only chunk server serves from a router over its upstream stores (the second
		// member never has the chunk): the verdicts are the same
		up = NewStoreRouter(up, &verifStore{})
	}
	sconv := Converters{Compressor{}}
	if clientUnc {
		sconv = Converters{}
	}
	h := NewHTTPHandler(up, true, false, sconv, "")
	rt := &verifRT{}
	var codes []int
	rt.f = func(r *http.Request) (*http.Response, error) {
		w := &verifRW{}
		h.ServeHTTP(w, r)
		if w.code == 0 {
			w.code = 200
		}
		codes = append(codes, w.code)
		return verifResp(w.code, w.body), nil
	}
	s := verifHTTPStore(rt, StoreOptions{ErrorRetry: 1, Uncompressed: clientUnc, SkipVerify: skip})
	var c *Chunk
	var err error
	var has bool
	switch op {
	case 0:
		c, err = s.GetChunk(id)
	case 1:
		has, err = s.HasChunk(id)
	case 2:
		err = s.StoreChunk(good)
	}
	vCover("request-returned")
	_, missing := err.(ChunkMissing)
	code := codes[len(codes)-1]
	decodable := kind != 3 || (clientUnc == false) // a server serving compressed chunks passes the stored bytes through
	switch {
	case kind == 0 || (kind == 3 && op != 0):
		vAssert(err == nil && code == 200, "healthy request failed")
		if op == 1 {
			vAssert(has, "present chunk reported absent")
		}
		if op == 0 {
			verifDelivered(id, c, err, "RemoteHTTP.GetChunk")
		}
	case kind == 1 && op == 0:
		vAssert(code == 404 && missing && c == nil, "missing chunk not reported as missing")
	case kind == 1 && op == 1:
		vAssert(code == 404 && err == nil && !has, "missing chunk not reported as absent on HEAD")
	case kind == 1 && op == 2:
		vAssert(err == nil && code == 200, "upload of a new chunk failed")
	case kind == 4 && op == 0:
		vCover("invalid-upstream-chunk")
		vAssert(code >= 500, "a chunk that fails verification upstream is not answered with a server error status (404 would say: missing)")
		vAssert(err != nil && !missing && c == nil, "a chunk that fails verification upstream reported as success or as missing")
	case kind == 4:
		// HEAD sees the file; PUT of the right chunk replaces it
	case kind == 2:
		vAssert(code >= 500, "an upstream failure is not answered with a server error status")
		vAssert(err != nil && !missing && c == nil && !has, "an upstream failure reported as success or as missing")
	case kind == 3 && op == 0 && !decodable:
		vCover("undecodable-upstream-chunk")
		vAssert(code >= 500, "a chunk the server cannot decode is not answered with a server error status")
		vAssert(err != nil && !missing && c == nil, "a chunk the server cannot decode reported as success or as missing")
	case kind == 3 && op == 0:
		// passed through untouched: the client sees the damage itself (or, not verifying, gets a chunk whose Data fails)
		if err == nil {
			_, derr := c.Data()
			vAssert(derr != nil, "garbage decoded as a chunk")
		}
	}
}

// VerifC14_Protocol: casync protocol client against ProtocolServer over in-process pipes.
func VerifC14_Protocol() {
	vPreempt(0)
	vSchedFixed(true) // a sequential request/response exchange: goroutine order is not the subject
	data := vBytes("chunk", 2)
	st := &verifStore{}
	id := st.add(data)
	state := verifSymChoice("store-state", 3) // present, missing, failing
	if state == 1 {
		st.entries = nil
	}
	if state == 2 {
		st.failGet = map[int]bool{0: true}
	}
	r1, w1 := io.Pipe()
	r2, w2 := io.Pipe()
	srv := NewProtocolServer(r1, w2, st)
	go func() {
		srv.Serve(context.Background())
		w2.Close()
	}()
	cl := NewProtocol(r2, w1)
	_, err := cl.Initialize(CaProtocolPullChunks)
	vAssert(err == nil, "handshake failed")
	c, err := cl.RequestChunk(id)
	vCover("request-returned")
	_, missing := err.(ChunkMissing)
	switch state {
	case 0:
		vAssert(err == nil, "present chunk not delivered")
		verifDelivered(id, c, err, "Protocol.RequestChunk")
		if err == nil {
			b, _ := c.Data()
			vAssert(vEqBytes(b, data), "chunk bytes changed over the protocol")
		}
	case 1:
		vAssert(missing, "missing chunk not reported as ChunkMissing")
	case 2:
		vAssert(err != nil && !missing, "store failure reported as success or as missing")
	}
}

// VerifC03_Protocol: arbitrary reply bytes on the wire, or a self-consistent chunk message
// that belongs to another chunk (a stale / out-of-order reply); a delivered chunk hashes to
// the requested ID.
func VerifC03_Protocol() {
	id := NewChunk([]byte{0x61, 0x62}).ID()
	var reply []byte
	if vChoose("reply-kind", 2) == 0 {
		n := 16 + 40 + vChoose("payload", 7)
		reply = vBytes("reply", n)
		// a length-consistent message (hostile lengths are the subject of C19)
		copy(reply, verifLE64(uint64(n)))
	} else {
		// a well-formed CHUNK message for whatever data the solver picks, labelled with that data's own ID
		data := vBytes("other-chunk", 2)
		label := Digest.Sum(data)
		payload, _ := Compress(data)
		reply = append(reply, verifLE64(uint64(16+40+len(payload)))...)
		reply = append(reply, verifLE64(CaProtocolChunk)...)
		reply = append(reply, verifLE64(CaProtocolChunkCompressed)...)
		reply = append(reply, label[:]...)
		reply = append(reply, payload...)
	}
	cl := NewProtocol(bytes.NewReader(reply), &bytes.Buffer{})
	cl.initialized = true
	c, err := cl.RequestChunk(id)
	vCover("request-returned")
	verifDelivered(id, c, err, "Protocol.RequestChunk")
}
