package desync

// Stub stores shared by the harnesses.  They are ordinary Go (they also run
// natively in replays); outcomes of individual calls are chosen by the harness.

import (
	"errors"
	"sync"
)

var verifErrInjected = errors.New("verif: injected store failure")

type verifEntry struct {
	id   ChunkID
	data []byte
}

// verifStore is an in-memory chunk store holding (id, plain data) pairs.
type verifStore struct {
	mu       sync.Mutex
	entries  []verifEntry
	failGetAt, failHasAt, failPutAt int // index of the failing call (may be symbolic), -1 = none; see newVerifStore
	useAt    bool
	failGet  map[int]bool // the n-th GetChunk call fails
	failHas  map[int]bool
	failPut  map[int]bool
	gets     int
	hass     int
	puts     int
	getLog   []ChunkID
	putLog   []ChunkID
	closed   bool
	yield    bool     // call vYield() inside operations (interleaving point)
	corrupt  map[int][]byte // the n-th GetChunk returns this data under the requested id (unverified)
	observed bool           // some call actually failed
}

// symbolicFaults lets the solver choose the index of the failing call of each kind
// (none, or any call number below limit).
func (s *verifStore) symbolicFaults(limit int) {
	s.useAt = true
	s.failGetAt, s.failHasAt, s.failPutAt = vInt("fail-get-at"), vInt("fail-has-at"), vInt("fail-put-at")
	vAssume(s.failGetAt >= -1 && s.failGetAt < limit)
	vAssume(s.failHasAt >= -1 && s.failHasAt < limit)
	vAssume(s.failPutAt >= -1 && s.failPutAt < limit)
}

func (s *verifStore) add(data []byte) ChunkID {
	id := Digest.Sum(data)
	s.entries = append(s.entries, verifEntry{id: id, data: data})
	return id
}

func (s *verifStore) find(id ChunkID) ([]byte, bool) {
	for _, e := range s.entries {
		if e.id == id {
			return e.data, true
		}
	}
	return nil, false
}

func (s *verifStore) GetChunk(id ChunkID) (*Chunk, error) {
	if s.yield {
		vYield()
	}
	s.mu.Lock()
	n := s.gets
	s.gets++
	s.getLog = append(s.getLog, id)
	s.mu.Unlock()
	if s.failGet[n] || (s.useAt && n == s.failGetAt) {
		s.observed = true
		return nil, verifErrInjected
	}
	if b, ok := s.corrupt[n]; ok {
		return NewChunkWithID(id, b, false)
	}
	s.mu.Lock()
	b, ok := s.find(id)
	s.mu.Unlock()
	if !ok {
		return nil, ChunkMissing{id}
	}
	return NewChunkWithID(id, b, true)
}

func (s *verifStore) HasChunk(id ChunkID) (bool, error) {
	if s.yield {
		vYield()
	}
	s.mu.Lock()
	defer s.mu.Unlock()
	n := s.hass
	s.hass++
	if s.failHas[n] || (s.useAt && n == s.failHasAt) {
		s.observed = true
		return false, verifErrInjected
	}
	_, ok := s.find(id)
	return ok, nil
}

func (s *verifStore) StoreChunk(c *Chunk) error {
	if s.yield {
		vYield()
	}
	s.mu.Lock()
	defer s.mu.Unlock()
	n := s.puts
	s.puts++
	if s.failPut[n] || (s.useAt && n == s.failPutAt) {
		s.observed = true
		return verifErrInjected
	}
	b, err := c.Data()
	if err != nil {
		return err
	}
	id := c.ID()
	s.putLog = append(s.putLog, id)
	if _, ok := s.find(id); !ok {
		s.entries = append(s.entries, verifEntry{id: id, data: append([]byte(nil), b...)}) // a store persists the bytes as they are now
	}
	return nil
}

func (s *verifStore) Close() error   { s.closed = true; return nil }
func (s *verifStore) String() string { return "verif-store" }
