package desync

// C01: extract reproduces the indexed blob byte-for-byte.

import (
	"context"
	"os"
)

// verifPrior puts the target path into one of the prior states of the property.
func verifPrior(target string, blob []byte) {
	switch vChoose("prior-target", 5) {
	case 0: // absent
	case 1: // empty
		os.WriteFile(target, nil, 0644)
	case 2: // same length, arbitrary content (older version / garbage)
		os.WriteFile(target, vBytes("prior", len(blob)), 0644)
	case 3: // longer
		os.WriteFile(target, vBytes("prior", len(blob)+2), 0644)
	case 4: // shorter
		n := len(blob) - 1
		if n < 0 {
			n = 0
		}
		os.WriteFile(target, vBytes("prior", n), 0644)
	}
}

func verifCheckAssembled(target string, blob []byte, err error, mustSucceed bool) {
	vCover("assemble-returned")
	if mustSucceed {
		vAssert(err == nil, "AssembleFile failed although the store holds every chunk and the seeds are usable")
	}
	if err != nil {
		return
	}
	vCover("assemble-succeeded")
	got, rerr := os.ReadFile(target)
	vAssert(rerr == nil, "target unreadable after a successful extract")
	vAssert(len(got) == len(blob), "extract reported success but the output does not have the indexed length")
	if len(got) == len(blob) {
		vAssert(vEqBytes(got, blob), "extract reported success but the output differs from the blob")
	}
}

// VerifC01_NoSeed: store only; every prior state of the target, with and without block
// cloning; one worker (goroutine order is not the subject here, see VerifC01_TwoWorkers).
func VerifC01_NoSeed() {
	vSchedFixed(true)
	vPreempt(0)
	maxK := 2
	if vTier() > 0 {
		maxK = 3
	}
	k := vChoose("chunks", maxK+1) // 0 = empty blob
	blob, idx, st := verifBlobIndex(k, 2)
	dir := vTempDir()
	target := dir + "/out"
	if vChoose("reflink", 2) == 1 {
		vSetCanClone(true)
		vSetBlockSize(1 + vChoose("blocksize", 2))
	}
	verifPrior(target, blob)
	_, err := AssembleFile(context.Background(), target, idx, st, nil, AssembleOptions{N: 1, InvalidSeedAction: InvalidSeedActionBailOut})
	verifCheckAssembled(target, blob, err, true)
}

// verifEnumBlob: k one-byte chunks over the alphabet {A, B, 0}: duplicates (self-seed) and
// null chunks are enumerated instead of solved for, which keeps the hash concrete in the
// schedule-exploring harnesses.
func verifEnumBlob(k int) ([]byte, Index, *verifStore) {
	st := &verifStore{}
	idx := Index{Index: FormatIndex{FeatureFlags: CaFormatSHA512256, ChunkSizeMin: 1, ChunkSizeAvg: 1, ChunkSizeMax: 1}}
	var blob []byte
	for c := 0; c < k; c++ {
		alphabet := []byte{0x41, 0x00, 0x42}
		if c == 0 {
			alphabet = alphabet[:2] // by symmetry the first chunk need not be B
		}
		data := []byte{alphabet[vChoose("byte", len(alphabet))]}
		id := st.add(data)
		idx.Chunks = append(idx.Chunks, IndexChunk{ID: id, Start: uint64(c), Size: 1})
		blob = append(blob, data...)
	}
	return blob, idx, st
}

// VerifC01_TwoWorkers: two workers over every schedule within the preemption bound;
// repeated chunks make a worker copy from the self-seed while the other one writes.
func VerifC01_TwoWorkers() {
	k := 2
	if vTier() > 0 {
		k = 3
	}
	blob, idx, st := verifEnumBlob(k)
	st.yield = true
	dir := vTempDir()
	target := dir + "/out"
	if vChoose("prior-garbage", 2) == 1 {
		os.WriteFile(target, []byte{0x42, 0x41, 0x42}[:k], 0644)
	}
	_, err := AssembleFile(context.Background(), target, idx, st, nil, AssembleOptions{N: 2, InvalidSeedAction: InvalidSeedActionBailOut})
	verifCheckAssembled(target, blob, err, true)
}

// verifSeedFile writes a seed file of m chunks (sizes 1-2, symbolic content) and returns
// an index describing it.
func verifSeedFile(name string, m int, what string) ([]byte, Index) {
	idx := Index{Index: FormatIndex{FeatureFlags: CaFormatSHA512256, ChunkSizeMin: 1, ChunkSizeAvg: 1, ChunkSizeMax: 2}}
	var content []byte
	for c := 0; c < m; c++ {
		size := 1 + vChoose(what+"-size", 2)
		data := vBytes(what+"-chunk", size)
		idx.Chunks = append(idx.Chunks, IndexChunk{ID: Digest.Sum(data), Start: uint64(len(content)), Size: uint64(size)})
		content = append(content, data...)
	}
	os.WriteFile(name, content, 0644)
	return content, idx
}

// VerifC01_Seeds: file seeds of every kind named by the property, sequentially.
func VerifC01_Seeds() {
	vSchedFixed(true)
	vPreempt(0)
	k := 1 + vChoose("chunks", 2)
	blob, idx, st := verifBlobIndex(k, 2)
	dir := vTempDir()
	target := dir + "/out"
	seedPath := dir + "/seed"
	if vChoose("reflink", 2) == 1 {
		vSetCanClone(true)
		vSetBlockSize(1 + vChoose("blocksize", 2))
	}
	action := []InvalidSeedAction{InvalidSeedActionBailOut, InvalidSeedActionSkip}[vChoose("invalid-seed-action", 2)]
	kind := vChoose("seed-kind", 6)
	usable := true   // liveness is claimed
	var seeds []Seed
	switch kind {
	case 0: // consistent seed
		_, sidx := verifSeedFile(seedPath, 2, "seed")
		s, _ := NewIndexSeed(target, seedPath, sidx)
		seeds = []Seed{s}
	case 1: // seed whose data was altered after it was indexed (stale index / corrupted seed)
		_, sidx := verifSeedFile(seedPath, 2, "seed")
		os.WriteFile(seedPath, vBytes("altered-seed", int(sidx.Length())), 0644)
		s, _ := NewIndexSeed(target, seedPath, sidx)
		seeds = []Seed{s}
		usable = action == InvalidSeedActionSkip
	case 2: // empty seed
		os.WriteFile(seedPath, nil, 0644)
		s, _ := NewIndexSeed(target, seedPath, Index{Index: idx.Index})
		seeds = []Seed{s}
	case 3: // the same consistent seed twice
		_, sidx := verifSeedFile(seedPath, 2, "seed")
		s1, _ := NewIndexSeed(target, seedPath, sidx)
		s2, _ := NewIndexSeed(target, seedPath, sidx)
		seeds = []Seed{s1, s2}
	case 5: // seed file cut short after it was indexed (its remaining bytes are unchanged)
		data, sidx := verifSeedFile(seedPath, 2, "seed")
		os.WriteFile(seedPath, data[:len(data)-1-vChoose("cut", len(data))], 0644)
		s, _ := NewIndexSeed(target, seedPath, sidx)
		seeds = []Seed{s}
		usable = action == InvalidSeedActionSkip
	case 4: // the seed is the target itself (its previous content)
		_, sidx := verifSeedFile(target, 2, "old-target")
		s, _ := NewIndexSeed(target, target, sidx)
		seeds = []Seed{s}
		usable = false // only safety is claimed: the seed changes under the extract
	}
	if kind != 4 {
		if vTier() > 0 {
			verifPrior(target, blob)
		} else if vChoose("prior-garbage", 2) == 1 { // all five prior states are covered by VerifC01_NoSeed
			os.WriteFile(target, vBytes("prior", len(blob)), 0644)
		}
	}
	_, err := AssembleFile(context.Background(), target, idx, st, seeds, AssembleOptions{N: 1, InvalidSeedAction: action})
	verifCheckAssembled(target, blob, err, usable)
}

// VerifC01_Regenerate: invalid-seed action "regenerate" with an empty seed next to a
// corrupted one: the extract must return (success or error), never hang or panic, and a
// success is a correct file.
func VerifC01_Regenerate() {
	vSchedFixed(true)
	vPreempt(0)
	blob, idx, st := verifEnumBlob(2)
	dir := vTempDir()
	target := dir + "/out"
	os.WriteFile(dir+"/empty", nil, 0644)
	e, _ := NewIndexSeed(target, dir+"/empty", Index{Index: idx.Index})
	// a seed that claims to hold the blob's chunks but whose data is different
	os.WriteFile(dir+"/bad", []byte{0x7a, 0x7a}, 0644)
	b, _ := NewIndexSeed(target, dir+"/bad", idx)
	seeds := []Seed{e, b}
	if vChoose("order", 2) == 1 {
		seeds = []Seed{b, e}
	}
	_, err := AssembleFile(context.Background(), target, idx, st, seeds, AssembleOptions{N: 1, InvalidSeedAction: InvalidSeedActionRegenerate})
	verifCheckAssembled(target, blob, err, false)
}

// VerifC01_RegenerateReal: invalid-seed action "regenerate" with chunk sizes the chunker
// accepts (48/64/72), so the seed really is re-indexed: the seed is a truncated or altered
// copy of the blob that still carries the blob's full index.
func VerifC01_RegenerateReal() {
	vSchedFixed(true)
	vPreempt(0)
	vFSYield(false)
	blob := verifPattern(300, 100, []int{0, 150}[vChoose("zero-run", 2)], false)
	chunks := verifSequentialIndex(blob, 48, 64, 72)
	idx := Index{Index: FormatIndex{FeatureFlags: CaFormatSHA512256, ChunkSizeMin: 48, ChunkSizeAvg: 64, ChunkSizeMax: 72}, Chunks: chunks}
	st := &verifStore{}
	for _, c := range chunks {
		st.add(blob[c.Start : c.Start+c.Size])
	}
	dir := vTempDir()
	target := dir + "/out"
	seedData := append([]byte(nil), blob...)
	switch vChoose("seed-damage", 4) {
	case 0: // cut to the first quarter: the regenerated index has fewer chunks than the stale one
		seedData = seedData[:75]
	case 1: // cut in the middle of a chunk
		seedData = seedData[:130]
	case 2: // one byte changed in the first chunk
		seedData[3] ^= 0xff
	case 3: // one byte changed in the last chunk
		seedData[len(seedData)-2] ^= 0xff
	}
	os.WriteFile(dir+"/seed", seedData, 0644)
	seed, _ := NewIndexSeed(target, dir+"/seed", idx)
	n := 1 + vChoose("workers", 2)
	_, err := AssembleFile(context.Background(), target, idx, st, []Seed{seed}, AssembleOptions{N: n, InvalidSeedAction: InvalidSeedActionRegenerate})
	verifCheckAssembled(target, blob, err, true)
}

// VerifC01_RepeatedSeedRanges: a repetitive blob whose plan takes several ranges from one seed,
// among them ranges that start at the same seed offset with different lengths (A B | X | A B C
// against a seed A B C), with one seed chunk (solver-chosen) altered after indexing.  Every
// planned range is validated: with bail-out the damage is reported, with skip the extract
// still succeeds from the store; a success is the blob.
func VerifC01_RepeatedSeedRanges() {
	vSchedFixed(true)
	vPreempt(0)
	letters := []byte("ABXABC")
	if vChoose("layout", 2) == 1 {
		letters = []byte("ABCXAB") // the longer range first
	}
	st := &verifStore{}
	idx := Index{Index: FormatIndex{FeatureFlags: CaFormatSHA512256, ChunkSizeMin: 1, ChunkSizeAvg: 1, ChunkSizeMax: 1}}
	for c, l := range letters {
		id := st.add([]byte{l})
		idx.Chunks = append(idx.Chunks, IndexChunk{ID: id, Start: uint64(c), Size: 1})
	}
	dir := vTempDir()
	target, seedPath := dir+"/out", dir+"/seed"
	seed := []byte("ABC")
	sidx := Index{Index: idx.Index}
	for c := range seed {
		sidx.Chunks = append(sidx.Chunks, IndexChunk{ID: Digest.Sum(seed[c : c+1]), Start: uint64(c), Size: 1})
	}
	damaged := vChoose("damaged-seed-chunk", 4) // 3: none
	onDisk := append([]byte(nil), seed...)
	if damaged < 3 {
		onDisk[damaged] ^= 0x20
	}
	os.WriteFile(seedPath, onDisk, 0644)
	if vChoose("prior-garbage", 2) == 1 {
		os.WriteFile(target, []byte("zzzzzz"), 0644)
	}
	s, _ := NewIndexSeed(target, seedPath, sidx)
	action := []InvalidSeedAction{InvalidSeedActionBailOut, InvalidSeedActionSkip}[vChoose("invalid-seed-action", 2)]
	_, err := AssembleFile(context.Background(), target, idx, st, []Seed{s}, AssembleOptions{N: 1, InvalidSeedAction: action})
	verifCheckAssembled(target, letters, err, damaged == 3 || action == InvalidSeedActionSkip)
}

// VerifC01_NullCopy: the plain-copy route of the null-chunk seed (a run of all-zero max-size
// chunks written into a target that held other data, on a file system without cloning) on a
// real file: exactly the range is zeroed - the bytes before and after it, and the file's
// length, stay as they were.  Range lengths around typical buffer sizes.
func VerifC01_NullCopy() {
	lens := []int{1, 100, 4095, 4096, 32767, 32768, 32769, 50000, 65536, 65537, 70000}
	n := lens[vChoose("length", len(lens))]
	off := []int{0, 1, 4096}[vChoose("offset", 3)]
	tail := 40000
	dir := vTempDir()
	prior := make([]byte, off+n+tail)
	for k := range prior {
		prior[k] = 0xEE
	}
	os.WriteFile(dir+"/out", prior, 0644)
	f, err := os.OpenFile(dir+"/out", os.O_RDWR, 0)
	vAssert(err == nil, "open")
	s := &nullChunkSection{from: 0, to: uint64(n)}
	copied, _, err := s.copy(f, uint64(off), uint64(n))
	f.Close()
	vCover("copied")
	vAssert(err == nil && copied == uint64(n), "null copy failed or reports a wrong count")
	got, _ := os.ReadFile(dir + "/out")
	vAssert(len(got) == len(prior), "the null copy changed the length of the target")
	ok := len(got) == len(prior)
	for k := 0; ok && k < len(got); k++ {
		want := byte(0xEE)
		if k >= off && k < off+n {
			want = 0
		}
		if got[k] != want {
			ok = false
		}
	}
	vAssert(ok, "the null copy did not zero exactly its range (bytes before or after it changed, or some were left)")
}
