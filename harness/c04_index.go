package desync

// C04: index files round-trip exactly and malformed ones are rejected.

import (
	"bytes"
	"encoding/binary"
)

func verifSymIndex(n int) Index {
	idx := Index{Index: FormatIndex{
		FeatureFlags: vU64("flags"),
		ChunkSizeMin: vU64("min"), ChunkSizeAvg: vU64("avg"), ChunkSizeMax: vU64("max"),
	}}
	var start uint64
	for k := 0; k < n; k++ {
		var id ChunkID
		copy(id[:], vBytes("id", 32))
		size := vU64("size")
		vAssume(size <= idx.Index.ChunkSizeMax)
		vAssume(size < 1<<40) // total stays far below 2^63 (Index.Length is an int64)
		if k == 0 {
			vAssume(size >= 1) // an end offset of 0 is the table terminator
		}
		idx.Chunks = append(idx.Chunks, IndexChunk{ID: id, Start: start, Size: size})
		start += size
	}
	return idx
}

func verifDigestFor(flags uint64) {
	if flags&CaFormatSHA512256 != 0 {
		Digest = SHA512256{}
	} else {
		Digest = SHA256{}
	}
}

// verifRefParse is an independent parser of the caibx layout:
// 48 byte index header, table header (MAX_UINT64, type), rows of (end offset, 32 byte id),
// zero offset, zero, index offset 48, table size 16+40*N+40, tail marker.
func verifRefParse(b []byte, n int) (ok bool, hdr [6]uint64, offs []uint64, ids [][]byte) {
	want := 48 + 16 + 40*n + 40
	if len(b) != want {
		return false, hdr, nil, nil
	}
	u := func(p int) uint64 { return binary.LittleEndian.Uint64(b[p : p+8]) }
	for k := 0; k < 6; k++ {
		hdr[k] = u(8 * k)
	}
	good := vAnd(hdr[0] == 48, hdr[1] == CaFormatIndex)
	good = vAnd(good, vAnd(u(48) == ^uint64(0), u(56) == CaFormatTable))
	p := 64
	for k := 0; k < n; k++ {
		offs = append(offs, u(p))
		good = vAnd(good, u(p) != 0)
		ids = append(ids, b[p+8:p+40])
		p += 40
	}
	good = vAnd(good, vAnd(u(p) == 0, u(p+8) == 0))
	good = vAnd(good, vAnd(u(p+16) == 48, u(p+24) == uint64(16+40*n+40)))
	good = vAnd(good, u(p+32) == CaFormatTableTailMarker)
	return good, hdr, offs, ids
}

// VerifC04_RoundTrip: decode(encode(i)) == i, the bytes parse under the reference
// parser into the same table, and every strict prefix is rejected.
func VerifC04_RoundTrip() {
	max := 3
	if vTier() > 0 {
		max = 5 // N=6: two prefix-rejection paths run into the 60 s solver limit
	}
	n := vChoose("chunks", max+1)
	idx := verifSymIndex(n)
	verifDigestFor(idx.Index.FeatureFlags) // a reader configured for the file's digest
	var buf bytes.Buffer
	wn, err := idx.WriteTo(&buf)
	vAssert(err == nil, "WriteTo into a buffer failed")
	b := buf.Bytes()
	vAssert(int(wn) == len(b), "WriteTo reports the number of bytes written")
	vCover("encoded")

	ok, hdr, offs, ids := verifRefParse(b, n)
	vAssert(ok, "bytes do not follow the caibx layout (header, table, tail sizes, marker)")
	good := vAnd(hdr[2] == idx.Index.FeatureFlags, vAnd(hdr[3] == idx.Index.ChunkSizeMin, vAnd(hdr[4] == idx.Index.ChunkSizeAvg, hdr[5] == idx.Index.ChunkSizeMax)))
	for k := 0; k < n && k < len(offs); k++ {
		good = vAnd(good, offs[k] == idx.Chunks[k].Start+idx.Chunks[k].Size)
		good = vAnd(good, vEqBytes(ids[k], idx.Chunks[k].ID[:]))
	}
	vAssert(good, "independent parser recovers a different header or table")

	back, err := IndexFromReader(bytes.NewReader(b))
	vAssert(err == nil, "own encoding rejected on read-back")
	if err == nil {
		vCover("decoded")
		same := vAnd(back.Index.FeatureFlags == idx.Index.FeatureFlags, vAnd(back.Index.ChunkSizeMin == idx.Index.ChunkSizeMin,
			vAnd(back.Index.ChunkSizeAvg == idx.Index.ChunkSizeAvg, back.Index.ChunkSizeMax == idx.Index.ChunkSizeMax)))
		vAssert(len(back.Chunks) == n, "chunk count changed in the round trip")
		for k := 0; k < n && k < len(back.Chunks); k++ {
			same = vAnd(same, back.Chunks[k] == idx.Chunks[k])
		}
		vAssert(same, "round trip changed parameters or chunk table")
		vAssert(back.Length() == idx.Length(), "length changed")
	}

	// every strict prefix is rejected
	cut := vChoose("prefix", len(b))
	_, err = IndexFromReader(bytes.NewReader(b[:cut]))
	vAssert(err != nil, "truncated index accepted")
}

// VerifC04_Digest: a file whose digest flag disagrees with the configured digest is rejected.
func VerifC04_Digest() {
	n := vChoose("chunks", 2)
	idx := verifSymIndex(n)
	var buf bytes.Buffer
	idx.WriteTo(&buf)
	if vChoose("configured", 2) == 0 {
		Digest = SHA512256{}
	} else {
		Digest = SHA256{}
	}
	fileIs512 := idx.Index.FeatureFlags&CaFormatSHA512256 != 0
	_, cfg512 := Digest.(SHA512256)
	_, err := IndexFromReader(bytes.NewReader(buf.Bytes()))
	vCover("read")
	if fileIs512 != cfg512 {
		vAssert(err != nil, "index with the other digest's flag accepted")
	} else {
		vAssert(err == nil, "index with the matching digest flag rejected")
	}
}

// VerifC04_Tables: arbitrary table rows behind canonical headers: whatever is accepted
// has non-decreasing offsets, no chunk above the maximum, and re-encodes byte-identically.
func VerifC04_Tables() {
	max := 3
	if vTier() > 0 {
		max = 5
	}
	n := vChoose("rows", max+1)
	flags, cmin, cavg, cmax := vU64("flags"), vU64("min"), vU64("avg"), vU64("max")
	verifDigestFor(flags)
	var b []byte
	for _, v := range []uint64{48, CaFormatIndex, flags, cmin, cavg, cmax, ^uint64(0), CaFormatTable} {
		b = append(b, verifLE64(v)...)
	}
	var offs []uint64
	for k := 0; k < n; k++ {
		o := vU64("offset")
		offs = append(offs, o)
		b = append(b, verifLE64(o)...)
		b = append(b, vBytes("id", 32)...)
	}
	tailOff, tailSize := vU64("tailoffset"), vU64("tailsize")
	for _, v := range []uint64{0, 0, tailOff, tailSize, CaFormatTableTailMarker} {
		b = append(b, verifLE64(v)...)
	}
	idx, err := IndexFromReader(bytes.NewReader(b))
	vCover("read")
	if err != nil {
		return
	}
	vCover("accepted")
	// rows up to the first zero offset are the table
	var last uint64
	mono := true
	for k := 0; k < len(idx.Chunks); k++ {
		mono = vAnd(mono, vAnd(offs[k] >= last, offs[k]-last <= cmax))
		last = offs[k]
	}
	vAssert(mono, "accepted a table with decreasing offsets or an oversized chunk")
	if len(idx.Chunks) == n && n > 0 {
		vAssert(idx.Length() >= 0 == (offs[n-1] < 1<<63), "length sign")
	}
	// canonical tail fields: re-encoding reproduces the input bytes
	if len(idx.Chunks) == n {
		var out bytes.Buffer
		idx.WriteTo(&out)
		canonical := vAnd(tailOff == 48, tailSize == uint64(16+40*n+40))
		vAssert(vImplies(canonical, vEqBytes(out.Bytes(), b)), "accepted canonical file does not re-encode byte-identically")
	}
}
