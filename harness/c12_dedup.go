package desync

// C12: request de-duplication is safe under every interleaving.

import (
	"errors"
	"sync"
)

type verifUpCall struct {
	kind       string
	id         ChunkID
	start, end int64
	chunk      *Chunk
	has        bool
	err        error
}

// verifUpstream is the store behind the de-duplicating queue: every call yields
// (so completion order is a scheduler choice) and its outcome is chosen by the solver.
type verifUpstream struct {
	mu       sync.Mutex
	calls    []*verifUpCall
	inflight map[string]int
	maxIn    int
}

func (u *verifUpstream) begin(kind string, id ChunkID) *verifUpCall {
	u.mu.Lock()
	defer u.mu.Unlock()
	if u.inflight == nil {
		u.inflight = map[string]int{}
	}
	key := kind + string(id[:1])
	u.inflight[key]++
	if u.inflight[key] > u.maxIn {
		u.maxIn = u.inflight[key]
	}
	c := &verifUpCall{kind: kind, id: id, start: vNow()}
	u.calls = append(u.calls, c)
	return c
}

func (u *verifUpstream) finish(c *verifUpCall) {
	u.mu.Lock()
	defer u.mu.Unlock()
	u.inflight[c.kind+string(c.id[:1])]--
	c.end = vNow()
}

func (u *verifUpstream) GetChunk(id ChunkID) (*Chunk, error) {
	c := u.begin("get", id)
	vYield()
	switch vChoose("upstream-outcome", 3) {
	case 0:
		c.chunk = NewChunk([]byte{id[0], 1})
	case 1:
		c.err = ChunkMissing{id}
	default:
		c.err = errors.New("upstream failure")
	}
	u.finish(c)
	return c.chunk, c.err
}

func (u *verifUpstream) HasChunk(id ChunkID) (bool, error) {
	c := u.begin("has", id)
	vYield()
	switch vChoose("upstream-outcome", 3) {
	case 0:
		c.has = true
	case 1:
		c.has = false
	default:
		c.err = errors.New("upstream failure")
	}
	u.finish(c)
	return c.has, c.err
}

func (u *verifUpstream) StoreChunk(ch *Chunk) error {
	c := u.begin("put", ch.ID())
	c.chunk = ch
	vYield()
	if vChoose("upstream-outcome", 2) == 1 {
		c.err = errors.New("upstream failure")
	}
	u.finish(c)
	return c.err
}

func (u *verifUpstream) Close() error   { return nil }
func (u *verifUpstream) String() string { return "verif-upstream" }

type verifCallRec struct {
	kind       string
	id         ChunkID
	start, end int64
	chunk      *Chunk
	has        bool
	err        error
}

type verifRecorder struct {
	mu   sync.Mutex
	recs []*verifCallRec
}

func (r *verifRecorder) get(s Store, id ChunkID) {
	rec := &verifCallRec{kind: "get", id: id, start: vNow()}
	rec.chunk, rec.err = s.GetChunk(id)
	rec.end = vNow()
	r.mu.Lock()
	r.recs = append(r.recs, rec)
	r.mu.Unlock()
}

func (r *verifRecorder) has(s Store, id ChunkID) {
	rec := &verifCallRec{kind: "has", id: id, start: vNow()}
	rec.has, rec.err = s.HasChunk(id)
	rec.end = vNow()
	r.mu.Lock()
	r.recs = append(r.recs, rec)
	r.mu.Unlock()
}

func (r *verifRecorder) put(s WriteStore, c *Chunk) {
	rec := &verifCallRec{kind: "put", id: c.ID(), start: vNow()}
	rec.err = s.StoreChunk(c)
	rec.end = vNow()
	r.mu.Lock()
	r.recs = append(r.recs, rec)
	r.mu.Unlock()
}

// sameResult: the caller got exactly what this upstream call returned.
func (rec *verifCallRec) sameResult(u *verifUpCall) bool {
	if rec.kind != u.kind || rec.id != u.id {
		return false
	}
	if rec.kind == "has" {
		return rec.has == u.has && rec.err == u.err
	}
	if rec.kind == "put" {
		return rec.err == u.err
	}
	return rec.chunk == u.chunk && rec.err == u.err
}

// verifCheckDedup: every caller's result comes from an upstream call that was made
// by a request (owner call) overlapping the caller's own call.
func verifCheckDedup(r *verifRecorder, u *verifUpstream) {
	vAssert(u.maxIn <= 1, "two upstream requests for the same chunk and kind in flight")
	for _, rec := range r.recs {
		ok := false
		for _, uc := range u.calls {
			if !rec.sameResult(uc) {
				continue
			}
			// the owner is a caller whose own call encloses the upstream call and who got the same result
			for _, owner := range r.recs {
				if owner.sameResult(uc) && owner.start < uc.start && uc.end < owner.end &&
					owner.start < rec.end && rec.start < owner.end {
					ok = true
				}
			}
		}
		vAssert(ok, "a caller got a result that no overlapping upstream request produced (stale or foreign result)")
	}
}

func verifID(b byte) ChunkID {
	var id ChunkID
	id[0] = b
	return id
}

// VerifC12_Get: callers of DedupQueue.GetChunk/HasChunk over one or two IDs; one
// caller issues a second request after its first returned.
func VerifC12_Get() {
	vPreempt(2) // (3 callers with a bound of 3 did not finish within the 900 s budget)
	u := &verifUpstream{}
	q := NewDedupQueue(u)
	r := &verifRecorder{}
	ncallers := 2 // (3 callers did not finish within the 900 s budget of the thorough tier; see VerifC12_LateWaiter for 3 callers of one ID)
	kind := vChoose("kind", 2)
	var wg sync.WaitGroup
	for c := 0; c < ncallers; c++ {
		id := verifID(byte(vChoose("id", 2)))
		twice := c == 0
		wg.Add(1)
		go func() {
			defer wg.Done()
			for rep := 0; rep < 2; rep++ {
				if kind == 0 {
					r.get(q, id)
				} else {
					r.has(q, id)
				}
				if !twice {
					break
				}
			}
		}()
	}
	wg.Wait()
	vCover("all-callers-returned")
	vAssert(len(r.recs) == ncallers+1, "a caller did not return")
	verifCheckDedup(r, u)
}

// VerifC12_Write: StoreChunk de-duplication, and reads overlapping a write see that chunk.
func VerifC12_Write() {
	vPreempt(2)
	u := &verifUpstream{}
	q := NewWriteDedupQueue(u)
	r := &verifRecorder{}
	chunk := NewChunk([]byte{7, 7})
	id := chunk.ID()
	var wg sync.WaitGroup
	for c := 0; c < 2; c++ {
		wg.Add(1)
		go func() {
			defer wg.Done()
			r.put(q, chunk)
		}()
	}
	var readChunk *Chunk
	var readErr error
	var readStart, readEnd int64
	wg.Add(1)
	go func() {
		defer wg.Done()
		readStart = vNow()
		readChunk, readErr = q.GetChunk(id)
		readEnd = vNow()
	}()
	wg.Wait()
	vCover("all-callers-returned")
	vAssert(len(r.recs) == 2, "a writer did not return")
	verifCheckDedup(r, u)
	if readErr == nil {
		vAssert(readChunk != nil, "read returned (nil, nil)")
	}
	// a read that overlapped nothing but the de-duplicated write (no upstream read happened) saw that chunk
	upReads := 0
	for _, uc := range u.calls {
		if uc.kind == "get" {
			upReads++
		}
	}
	if upReads == 0 {
		vAssert(readChunk == chunk, "read served from the in-flight write returned a different chunk")
		overl := false
		for _, w := range r.recs {
			if w.start < readEnd && readStart < w.end {
				overl = true
			}
		}
		vAssert(overl, "read served from a write that did not overlap it")
	}
}

// verifDedupSequence: caller 0 asks for chunk A and then for chunk B (so that whatever the
// queue keeps or recycles from the finished request for A meets a request for another ID),
// caller 1 asks for A concurrently.  Upstream outcomes are solver choices.
func verifDedupSequence() (*verifRecorder, *verifUpstream) {
	vPreempt(2)
	u := &verifUpstream{}
	q := NewDedupQueue(u)
	r := &verifRecorder{}
	a, b := verifID(0), verifID(1)
	var wg sync.WaitGroup
	wg.Add(2)
	go func() {
		defer wg.Done()
		r.get(q, a)
		r.get(q, b)
	}()
	go func() {
		defer wg.Done()
		r.get(q, a)
	}()
	wg.Wait()
	vCover("all-callers-returned")
	vAssert(len(r.recs) == 3, "a caller did not return")
	return r, u
}

// VerifC12_Sequence: results under the A-then-B sequence come from an overlapping upstream
// request for the *same* ID.
func VerifC12_Sequence() {
	r, u := verifDedupSequence()
	verifCheckDedup(r, u)
}

// VerifC03_Dedup: contract V through the de-duplication queue - whatever a caller is handed
// for an ID hashes to that ID (the upstream here only returns valid chunks).
func VerifC03_Dedup() {
	r, _ := verifDedupSequence()
	for _, rec := range r.recs {
		if rec.err == nil {
			vAssert(rec.chunk != nil, "nil chunk with nil error")
			if rec.chunk != nil {
				d, _ := rec.chunk.Data()
				vAssert(len(d) == 2 && d[0] == rec.id[0], "the de-duplication queue handed out another chunk's data for the requested ID")
			}
		}
	}
}

// VerifC12_LateWaiter: three callers of one ID, one of them asking twice, upstream always
// succeeding: a caller that wakes up late must not disturb the bookkeeping of a newer request
// (at most one upstream request for the ID in flight, every result from an overlapping request).
func VerifC12_LateWaiter() {
	vPreempt(2)
	u := &verifUpstreamOK{}
	q := NewDedupQueue(u)
	r := &verifRecorder{}
	id := verifID(0)
	var wg sync.WaitGroup
	for c := 0; c < 3; c++ {
		twice := c == 0
		wg.Add(1)
		go func() {
			defer wg.Done()
			r.get(q, id)
			if twice {
				r.get(q, id)
			}
		}()
	}
	wg.Wait()
	vCover("all-callers-returned")
	vAssert(len(r.recs) == 4, "a caller did not return")
	verifCheckDedup(r, &u.verifUpstream)
}

// verifUpstreamOK is verifUpstream with every GetChunk succeeding (no outcome choice).
type verifUpstreamOK struct{ verifUpstream }

func (u *verifUpstreamOK) GetChunk(id ChunkID) (*Chunk, error) {
	c := u.begin("get", id)
	vYield()
	c.chunk = NewChunk([]byte{id[0], 1})
	u.finish(c)
	return c.chunk, c.err
}

// VerifC12_Mixed: a GetChunk and a HasChunk for the same ID through one queue, concurrently,
// upstream outcomes chosen per call: each caller's result comes from an upstream request of its
// own kind (an existence answer is never derived from somebody else's read, and vice versa).
func VerifC12_Mixed() {
	vPreempt(2)
	u := &verifUpstream{}
	q := NewDedupQueue(u)
	r := &verifRecorder{}
	id := verifID(0)
	var wg sync.WaitGroup
	wg.Add(2)
	go func() { defer wg.Done(); r.get(q, id) }()
	go func() { defer wg.Done(); r.has(q, id) }()
	wg.Wait()
	vCover("all-callers-returned")
	vAssert(len(r.recs) == 2, "a caller did not return")
	verifCheckDedup(r, u)
}

// VerifC12_MixedWrite: the same through the write queue, whose reads and existence checks are
// delegated (StoreChunk of the chunk runs concurrently).
func VerifC12_MixedWrite() {
	vPreempt(2)
	u := &verifUpstream{}
	q := NewWriteDedupQueue(u)
	r := &verifRecorder{}
	id := verifID(0)
	var wg sync.WaitGroup
	wg.Add(2)
	go func() { defer wg.Done(); r.get(q, id) }()
	go func() { defer wg.Done(); r.has(q, id) }()
	wg.Wait()
	vCover("all-callers-returned")
	vAssert(len(r.recs) == 2, "a caller did not return")
	verifCheckDedup(r, u)
}

// VerifC12_WriteHas: a StoreChunk and a HasChunk for the same ID through the write queue,
// concurrently, upstream outcomes chosen per call (the write may fail): the existence answer is
// the result of an upstream HasChunk request made during the call - never an assumption drawn
// from the write that is in flight.
func VerifC12_WriteHas() {
	vPreempt(2)
	u := &verifUpstream{}
	q := NewWriteDedupQueue(u)
	r := &verifRecorder{}
	chunk := NewChunk([]byte{7, 7})
	id := chunk.ID()
	var wg sync.WaitGroup
	wg.Add(2)
	go func() { defer wg.Done(); r.put(q, chunk) }()
	go func() { defer wg.Done(); r.has(q, id) }()
	wg.Wait()
	vCover("all-callers-returned")
	vAssert(len(r.recs) == 2, "a caller did not return")
	verifCheckDedup(r, u)
}

// VerifC12_TwoQueues: two write de-duplication queues over two different stores (two targets in
// one process) store the same chunk at the same time: each store gets its own write and each
// caller the result of its own store - requests are de-duplicated per queue, not per process.
func VerifC12_TwoQueues() {
	vPreempt(1)
	ua, ub := &verifUpstream{}, &verifUpstream{}
	qa, qb := NewWriteDedupQueue(ua), NewWriteDedupQueue(ub)
	chunk := NewChunk([]byte{7, 7})
	var ea, eb error
	var wg sync.WaitGroup
	wg.Add(2)
	go func() { defer wg.Done(); ea = qa.StoreChunk(chunk) }()
	go func() { defer wg.Done(); eb = qb.StoreChunk(chunk) }()
	wg.Wait()
	vCover("both-returned")
	vAssert(len(ua.calls) == 1 && len(ub.calls) == 1, "a store did not get its own write (requests de-duplicated across queues?)")
	if len(ua.calls) == 1 && len(ub.calls) == 1 {
		vAssert(ea == ua.calls[0].err && eb == ub.calls[0].err, "a caller got the result of the other queue's store")
	}
}
