package desync

// C13 (whole archives): every archive Tar writes is well-formed catar - element sizes
// match their extent, elements come in casync's order, and every directory ends in a
// goodbye table whose items carry the right back-offsets, sizes and SipHash values, laid
// out as a complete BST, followed by the tail marker.  The validator below walks the bytes
// by offsets and is independent of desync's decoder (which ignores goodbye contents).

import (
	"bytes"
	"context"
	"encoding/binary"
	"io"
	"math/bits"
	"os"
	"sync"
	"time"
)

// verifSip24 is SipHash-2-4 written from the specification (independent of the library).
func verifSip24(k0, k1 uint64, p []byte) uint64 {
	v0, v1, v2, v3 := k0^0x736f6d6570736575, k1^0x646f72616e646f6d, k0^0x6c7967656e657261, k1^0x7465646279746573
	round := func() {
		v0 += v1
		v1 = bits.RotateLeft64(v1, 13)
		v1 ^= v0
		v0 = bits.RotateLeft64(v0, 32)
		v2 += v3
		v3 = bits.RotateLeft64(v3, 16)
		v3 ^= v2
		v0 += v3
		v3 = bits.RotateLeft64(v3, 21)
		v3 ^= v0
		v2 += v1
		v1 = bits.RotateLeft64(v1, 17)
		v1 ^= v2
		v2 = bits.RotateLeft64(v2, 32)
	}
	n := len(p)
	for ; len(p) >= 8; p = p[8:] {
		m := binary.LittleEndian.Uint64(p)
		v3 ^= m
		round()
		round()
		v0 ^= m
	}
	m := uint64(n) << 56
	for k, b := range p {
		m |= uint64(b) << (8 * uint(k))
	}
	v3 ^= m
	round()
	round()
	v0 ^= m
	v2 ^= 0xff
	round()
	round()
	round()
	round()
	return v0 ^ v1 ^ v2 ^ v3
}

// verifTreeReader is a FilesystemReader over a fixed list of files (depth-first order, as a
// walk would deliver them).
type verifTreeReader struct {
	files []*File
	pos   int
}

func (r *verifTreeReader) Next() (*File, error) {
	if r.pos >= len(r.files) {
		return nil, io.EOF
	}
	f := r.files[r.pos]
	r.pos++
	return f, nil
}

type verifArchWalker struct {
	b     []byte
	pos   int
	ok    bool
	names []string // filename elements in archive order
}

func (w *verifArchWalker) u64(off int) uint64 { return binary.LittleEndian.Uint64(w.b[off : off+8]) }

// element reads the header at pos and returns (type, size); size must fit the buffer.
func (w *verifArchWalker) element() (uint64, int) {
	if w.pos+16 > len(w.b) {
		vAssert(false, "archive ends inside an element header")
		return 0, 0
	}
	size, typ := w.u64(w.pos), w.u64(w.pos+8)
	vAssert(size >= 16 && uint64(w.pos)+size <= uint64(len(w.b)), "an element's size field does not fit its content")
	return typ, int(size)
}

// node validates one node (entry ... payload/symlink/device/directory) and returns its extent.
func (w *verifArchWalker) node(depth int) {
	entryStart := w.pos
	typ, size := w.element()
	vAssert(typ == CaFormatEntry && size == 64, "a node does not start with a 64 byte entry element")
	mode := w.u64(entryStart + 24)
	w.pos += size
	typ, size = w.element()
	for typ == CaFormatXAttr { // xattrs follow the entry
		w.pos += size
		typ, size = w.element()
	}
	switch {
	case mode&0170000 == 0100000:
		vAssert(typ == CaFormatPayload, "a regular file is not followed by a payload element")
		w.pos += size
	case mode&0170000 == 0120000:
		vAssert(typ == CaFormatSymlink && w.b[w.pos+size-1] == 0, "a symlink is not followed by a NUL-terminated symlink element")
		w.pos += size
	case mode&0170000 == 0020000 || mode&0170000 == 0060000:
		vAssert(typ == CaFormatDevice && size == 32, "a device is not followed by a 32 byte device element")
		w.pos += size
	case mode&0170000 == 0040000:
		type child struct {
			nameStart, end int
			hash           uint64
		}
		var kids []child
		for typ == CaFormatFilename {
			nameStart := w.pos
			vAssert(w.b[w.pos+size-1] == 0, "filename element is not NUL terminated")
			name := w.b[w.pos+16 : w.pos+size-1]
			vAssert(len(name) > 0 && !bytes.ContainsAny(name, "/\x00"), "filename element holds an invalid name")
			w.names = append(w.names, string(name))
			w.pos += size
			if depth > 4 {
				vAssert(false, "nesting deeper than the harness builds")
				return
			}
			w.node(depth + 1)
			kids = append(kids, child{nameStart, w.pos, verifSip24(CaFormatGoodbyeHashKey0, CaFormatGoodbyeHashKey1, name)})
			typ, size = w.element()
		}
		vAssert(typ == CaFormatGoodbye, "a directory does not end in a goodbye element")
		gb := w.pos
		vAssert(size == 16+24*(len(kids)+1), "goodbye size does not match the number of children plus the tail item")
		if size != 16+24*(len(kids)+1) {
			return
		}
		item := func(k int) (off, sz, h uint64) {
			p := gb + 16 + 24*k
			return w.u64(p), w.u64(p + 8), w.u64(p + 16)
		}
		// every child has exactly one item with the right back-offset, size and hash
		for _, c := range kids {
			found := 0
			for k := 0; k < len(kids); k++ {
				off, sz, h := item(k)
				if off == uint64(gb-c.nameStart) {
					found++
					vAssert(sz == uint64(c.end-c.nameStart), "goodbye item size is not the extent of filename + child")
					vAssert(h == c.hash, "goodbye item hash is not the SipHash-2-4 of the child's name")
				}
			}
			vAssert(found == 1, "a child has no (or more than one) goodbye item pointing back at its filename element")
		}
		// complete BST over the hash in array layout
		var inorder func(i int, out *[]uint64)
		inorder = func(i int, out *[]uint64) {
			if i >= len(kids) {
				return
			}
			inorder(2*i+1, out)
			_, _, h := item(i)
			*out = append(*out, h)
			inorder(2*i+2, out)
		}
		var hs []uint64
		inorder(0, &hs)
		for k := 1; k < len(hs); k++ {
			vAssert(hs[k-1] <= hs[k], "goodbye items are not a binary search tree over the name hashes")
		}
		off, sz, h := item(len(kids))
		vAssert(h == CaFormatGoodbyeTailMarker, "goodbye table does not end in the tail marker")
		vAssert(off == uint64(gb-entryStart), "tail item offset is not the distance back to the directory's entry")
		vAssert(sz == uint64(size), "tail item size is not the goodbye element's size")
		w.pos += size
	default:
		vAssert(false, "entry with an unknown file type")
	}
}

var verifNames = []string{"a", "bb", "c.txt", "dir", "e", "zz", "f1", "g"}

// VerifC13_Archive: trees of solver-chosen shape and fan-out through Tar.
func VerifC13_Archive() {
	maxFan := 3
	if vTier() > 0 {
		maxFan = 4
	}
	nfiles := 0
	mk := func(path, name string, mode os.FileMode, size int) *File {
		f := &File{Name: name, Path: path, Mode: mode, Uid: vInt("uid"), Gid: 5, ModTime: time.Unix(0, vI64("mtime"))}
		nx := 0
		if nfiles < 2 || (vTier() > 0 && nfiles < 3) { // only the root and its first child (thorough: two children) carry xattrs
			nx = vChoose("xattrs", 3)
		}
		nfiles++
		switch nx { // extended attributes add elements between the entry and its content
		case 1:
			f.Xattrs = map[string]string{"user.a": vStr("xattr-value", 2)}
		case 2:
			f.Xattrs = map[string]string{"user.b": "x", "user.a": vStr("xattr-value", 1)}
		}
		switch {
		case mode.IsRegular():
			f.Size = uint64(size)
			f.Data = io.NopCloser(bytes.NewReader(vBytes("content", size)))
		case mode&os.ModeSymlink != 0:
			f.LinkTarget = "t/u"
		case mode&os.ModeDevice != 0:
			f.DevMajor, f.DevMinor = vU64("major"), vU64("minor")
		}
		return f
	}
	files := []*File{mk(".", ".", os.ModeDir|0755, 0)}
	fan := vChoose("fan-out", maxFan+1)
	for k := 0; k < fan; k++ {
		name := verifNames[k]
		switch vChoose("kind", 4) {
		case 0:
			files = append(files, mk(name, name, 0644, vChoose("size", 3)))
		case 1:
			files = append(files, mk(name, name, os.ModeSymlink|0777, 0))
		case 2:
			files = append(files, mk(name, name, os.ModeDevice|os.ModeCharDevice|0600, 0))
		case 3: // a sub-directory with 0-2 files
			files = append(files, mk(name, name, os.ModeDir|0750, 0))
			sub := vChoose("sub-fan-out", 3)
			for j := 0; j < sub; j++ {
				files = append(files, mk(name+"/"+verifNames[7-j], verifNames[7-j], 0600, 1))
			}
		}
	}
	var buf bytes.Buffer
	err := Tar(context.Background(), &buf, &verifTreeReader{files: files})
	vAssert(err == nil, "Tar failed")
	vCover("archive-written")
	w := &verifArchWalker{b: buf.Bytes()}
	w.node(0)
	vAssert(w.pos == len(w.b), "bytes left over after the root directory's goodbye table")
	verifSameNames(w.names, files)
	vCover("archive-validated")
}

// verifSameNames: the filename elements are the input names, complete and in input order.
func verifSameNames(got []string, files []*File) {
	vAssert(len(got) == len(files)-1, "the archive does not have one filename element per non-root entry")
	for k := 1; k < len(files) && k-1 < len(got); k++ {
		vAssert(got[k-1] == files[k].Name, "a filename element does not carry the entry's name")
	}
}

// VerifC13_LongNames: a directory whose children have names of every length around the SipHash
// block size (8) and around NAME_MAX (255, which a tar or archive source can exceed).
func VerifC13_LongNames() {
	lens := []int{1, 7, 8, 9, 15, 16, 17, 254, 255, 256, 257, 300}
	if vTier() > 0 {
		lens = nil
		for l := 1; l <= 40; l++ {
			lens = append(lens, l)
		}
		lens = append(lens, 63, 64, 65, 127, 128, 129, 253, 254, 255, 256, 257, 258, 300, 511, 512, 513, 1000)
	}
	mkname := func(l int, first byte) string {
		b := make([]byte, l)
		for k := range b {
			b[k] = 'a' + byte(k%26)
		}
		b[0] = first
		return string(b)
	}
	files := []*File{{Name: ".", Path: ".", Mode: os.ModeDir | 0755, ModTime: time.Unix(0, 0)}}
	n := 1 + vChoose("children", 2)
	for k := 0; k < n; k++ {
		name := mkname(lens[vChoose("name-length", len(lens))], 'A'+byte(k))
		files = append(files, &File{Name: name, Path: name, Mode: 0644, Size: 1, ModTime: time.Unix(0, vI64("mtime")),
			Data: io.NopCloser(bytes.NewReader(vBytes("content", 1)))})
	}
	var buf bytes.Buffer
	err := Tar(context.Background(), &buf, &verifTreeReader{files: files})
	vAssert(err == nil, "Tar failed")
	w := &verifArchWalker{b: buf.Bytes()}
	w.node(0)
	vAssert(w.pos == len(w.b), "bytes left over after the root directory's goodbye table")
	verifSameNames(w.names, files)
	vCover("archive-validated")
}

// VerifC13_WideNested: a nested directory with a large fan-out (around 127/128/129 and
// 255/256/257 children: sizes at which an encoder that works in batches changes behaviour)
// followed by a sibling, so that the parent's goodbye items and tail offset depend on the
// nested directory's full extent.
func VerifC13_WideNested() {
	fans := []int{0, 1, 127, 128, 129, 257}
	if vTier() > 0 {
		fans = []int{0, 1, 2, 63, 64, 65, 127, 128, 129, 255, 256, 257, 300} // (513 exceeds the per-path step budget)
	}
	fan := fans[vChoose("nested-fan-out", len(fans))]
	mt := time.Unix(0, vI64("mtime"))
	files := []*File{{Name: ".", Path: ".", Mode: os.ModeDir | 0755, ModTime: mt}}
	files = append(files, &File{Name: "d", Path: "d", Mode: os.ModeDir | 0750, Uid: vInt("uid"), ModTime: mt})
	for k := 0; k < fan; k++ {
		name := "f" + string([]byte{'0' + byte(k/100), '0' + byte(k/10%10), '0' + byte(k%10)})
		files = append(files, &File{Name: name, Path: "d/" + name, Mode: os.ModeSymlink | 0777, ModTime: mt, LinkTarget: "t"})
	}
	files = append(files, &File{Name: "z", Path: "z", Mode: 0644, Size: 1, ModTime: mt, Data: io.NopCloser(bytes.NewReader(vBytes("content", 1)))})
	var buf bytes.Buffer
	err := Tar(context.Background(), &buf, &verifTreeReader{files: files})
	vAssert(err == nil, "Tar failed")
	w := &verifArchWalker{b: buf.Bytes()}
	w.node(0)
	vAssert(w.pos == len(w.b), "bytes left over after the root directory's goodbye table")
	verifSameNames(w.names, files)
	vCover("archive-validated")
}

// VerifC13_SpecialModes: entries that carry set-uid / set-gid / sticky bits (a sticky directory
// like /tmp, a set-gid directory like /var/mail, a set-uid file): the entry's st_mode keeps the
// node's type, so the elements that follow it are the ones casync expects for that type.
func VerifC13_SpecialModes() {
	bits := []os.FileMode{0, os.ModeSticky, os.ModeSetgid, os.ModeSetuid, os.ModeSetgid | os.ModeSticky}
	rootBits := bits[vChoose("root-bits", len(bits))]
	dirBits := bits[vChoose("dir-bits", len(bits))]
	fileBits := bits[vChoose("file-bits", len(bits))]
	mt := time.Unix(0, vI64("mtime"))
	files := []*File{
		{Name: ".", Path: ".", Mode: os.ModeDir | 0777 | rootBits, ModTime: mt},
		{Name: "d", Path: "d", Mode: os.ModeDir | 0775 | dirBits, ModTime: mt},
		{Name: "x", Path: "d/x", Mode: 0755 | fileBits, Size: 1, ModTime: mt, Data: io.NopCloser(bytes.NewReader(vBytes("content", 1)))},
		{Name: "l", Path: "l", Mode: os.ModeSymlink | 0777, ModTime: mt, LinkTarget: "d"},
		{Name: "n", Path: "n", Mode: os.ModeDevice | os.ModeCharDevice | 0600 | fileBits, ModTime: mt, DevMajor: 1, DevMinor: 3},
	}
	var buf bytes.Buffer
	err := Tar(context.Background(), &buf, &verifTreeReader{files: files})
	vAssert(err == nil, "Tar failed")
	w := &verifArchWalker{b: buf.Bytes()}
	w.node(0)
	vAssert(w.pos == len(w.b), "bytes left over after the root directory's goodbye table")
	verifSameNames(w.names, files)
	vCover("archive-validated")
}

// verifLimitWriter accepts the first n bytes and then fails like a full disk or a closed pipe.
type verifLimitWriter struct {
	buf bytes.Buffer
	n   int
}

func (w *verifLimitWriter) Write(p []byte) (int, error) {
	room := w.n - w.buf.Len()
	if room >= len(p) {
		return w.buf.Write(p)
	}
	if room > 0 {
		w.buf.Write(p[:room])
	} else {
		room = 0
	}
	return room, os.ErrClosed
}

// VerifC13_WriteFault: the destination of Tar fails after a solver-chosen number of bytes
// (inside the first entry, between elements, inside the payload, inside or right before the
// closing goodbye tables): Tar reports the failure - a nil result means the complete,
// well-formed archive was written.
func VerifC13_WriteFault() {
	files := func() []*File {
		return []*File{
			{Name: ".", Path: ".", Mode: os.ModeDir | 0755, ModTime: time.Unix(0, 5)},
			{Name: "a", Path: "a", Mode: 0644, Size: 2, ModTime: time.Unix(0, 5), Data: io.NopCloser(bytes.NewReader([]byte("hi")))},
			{Name: "l", Path: "l", Mode: os.ModeSymlink | 0777, ModTime: time.Unix(0, 5), LinkTarget: "a"},
		}
	}
	var full bytes.Buffer
	vAssert(Tar(context.Background(), &full, &verifTreeReader{files: files()}) == nil, "Tar failed")
	total := full.Len()
	cuts := []int{0, 1, 16, 63, 64, 65, 100, total - 41, total - 40, total - 1, total}
	cut := cuts[vChoose("bytes-accepted", len(cuts))]
	w := &verifLimitWriter{n: cut}
	err := Tar(context.Background(), w, &verifTreeReader{files: files()})
	vCover("tar-returned")
	if err == nil {
		vAssert(bytes.Equal(w.buf.Bytes(), full.Bytes()), "Tar reported success but the destination does not hold the complete archive (write error lost?)")
	}
	if cut < total {
		vAssert(err != nil, "Tar reported success although the destination refused part of the archive")
	}
}

// verifYieldWriter is a slow destination: every Write is a scheduling point.
type verifYieldWriter struct{ buf bytes.Buffer }

func (w *verifYieldWriter) Write(p []byte) (int, error) {
	vYield()
	return w.buf.Write(p)
}

// VerifC13_TwoArchives: two archives are written at the same time (two mounts or servers in one
// process, `tar -i` streaming into a pipe while another tar runs) into slow destinations: each
// one is byte for byte what it is when written alone - encoders share no scratch state.
func VerifC13_TwoArchives() {
	vPreempt(1)
	mk := func(k int) []*File {
		return []*File{
			{Name: ".", Path: ".", Mode: os.ModeDir | 0755, Uid: 10 * (k + 1), ModTime: time.Unix(0, int64(5+k))},
			{Name: "f", Path: "f", Mode: 0644, Uid: 7 + k, Size: 1, ModTime: time.Unix(0, int64(9+k)), Data: io.NopCloser(bytes.NewReader([]byte{byte(0x41 + k)}))},
		}
	}
	var ref [2]bytes.Buffer
	for k := 0; k < 2; k++ {
		vAssert(Tar(context.Background(), &ref[k], &verifTreeReader{files: mk(k)}) == nil, "Tar failed")
	}
	var out [2]verifYieldWriter
	var wg sync.WaitGroup
	for k := 0; k < 2; k++ {
		k := k
		wg.Add(1)
		go func() {
			defer wg.Done()
			Tar(context.Background(), &out[k], &verifTreeReader{files: mk(k)})
		}()
	}
	wg.Wait()
	vCover("both-written")
	for k := 0; k < 2; k++ {
		vAssert(bytes.Equal(out[k].buf.Bytes(), ref[k].Bytes()), "an archive written while another one was being written differs from the same archive written alone")
	}
}
