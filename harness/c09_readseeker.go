package desync

// C09: random-access reads through an index return exactly the blob's bytes.

import (
	"bytes"
	"context"
	"io"
	"sync"
	"syscall"

	"github.com/hanwen/go-fuse/v2/fs"
	"github.com/hanwen/go-fuse/v2/fuse"
)

// verifFuseFile is the file node of an index mount; handles come from its Open method and
// are read through its Read method, as the FUSE server does.
type verifFuseHandle struct {
	n  *indexFile
	fh fs.FileHandle
}

func verifFuseOpen(n *indexFile) *verifFuseHandle {
	fh, _, errno := n.Open(context.Background(), 0)
	vAssert(errno == 0 && fh != nil, "open of the mounted file failed")
	return &verifFuseHandle{n, fh}
}

func (h *verifFuseHandle) read(dest []byte, off int64) (fuse.ReadResult, syscall.Errno) {
	return h.n.Read(context.Background(), h.fh, dest, off)
}

// verifBlobIndex builds a blob of k chunks with solver-chosen sizes 1..max and
// symbolic content, its index and a store holding the chunks.
func verifBlobIndex(k int, max int) ([]byte, Index, *verifStore) {
	st := &verifStore{}
	idx := Index{Index: FormatIndex{FeatureFlags: CaFormatSHA512256, ChunkSizeMin: 1, ChunkSizeAvg: 1, ChunkSizeMax: uint64(max)}}
	var blob []byte
	for c := 0; c < k; c++ {
		size := 1 + vChoose("size", max)
		data := vBytes("chunk", size)
		id := st.add(data)
		idx.Chunks = append(idx.Chunks, IndexChunk{ID: id, Start: uint64(len(blob)), Size: uint64(size)})
		blob = append(blob, data...)
	}
	return blob, idx, st
}

func VerifC09_EmptyIndex() {
	r := NewIndexReadSeeker(Index{Index: FormatIndex{FeatureFlags: CaFormatSHA512256, ChunkSizeMin: 1, ChunkSizeAvg: 1, ChunkSizeMax: 2}}, &verifStore{})
	vCover("constructed")
	n, err := r.Read(make([]byte, 2))
	vAssert(n == 0 && err == io.EOF, "read of an empty blob is (0, EOF)")
	p, err := r.Seek(0, io.SeekStart)
	vAssert(p == 0 && err == nil, "seek to 0 in an empty blob")
	off := vI64("offset")
	p, err = r.Seek(off, vChoose("whence", 3))
	vAssert(vImplies(off == 0, p == 0), "seek by 0 moved the cursor of an empty blob")
	vAssert(vImplies(err == nil, p == 0), "cursor outside an empty blob")
	n, err = r.Read(make([]byte, 1))
	vAssert(n == 0 && err != nil, "data read from an empty blob")
}

// VerifC09_FuseRead: the read method behind the FUSE index mount returns all the
// requested bytes that exist (the kernel zero-fills a short reply).
func VerifC09_FuseRead() {
	maxK := 2
	if vTier() > 0 {
		maxK = 3
	}
	k := 1 + vChoose("chunks", maxK)
	blob, idx, st := verifBlobIndex(k, 2)
	length := int64(len(blob))
	h := verifFuseOpen(&indexFile{idx: idx, store: st})
	nreads := 2
	for q := 0; q < nreads; q++ {
		off := vI64("offset")
		vAssume(off >= 0 && off <= length)
		l := vChoose("size", 5)
		dest := make([]byte, l)
		res, errno := h.read(dest, off)
		vCover("fuse-read")
		vAssert(errno == 0, "EIO from a healthy store for an offset inside the blob")
		if errno == 0 {
			b, _ := res.Bytes(nil)
			want := length - off
			if want > int64(l) {
				want = int64(l)
			}
			vAssert(int64(len(b)) == want, "FUSE read returned fewer bytes than exist for the range")
			ok := true
			for c := 0; c < len(b) && int64(c) < want; c++ {
				ok = vAnd(ok, b[c] == blob[off+int64(c)])
			}
			vAssert(ok, "FUSE read returned bytes that differ from the blob")
		}
	}
}

// VerifC09_FuseTwoHandles: two handles opened on the mounted file, read concurrently (the store
// yields inside every request): each request returns the bytes of its own range.
func VerifC09_FuseTwoHandles() {
	vPreempt(1)
	blob, idx, st := verifBlobIndex(2, 2)
	st.yield = true
	length := int64(len(blob))
	n := &indexFile{idx: idx, store: st}
	var wg sync.WaitGroup
	for g := 0; g < 2; g++ {
		h := verifFuseOpen(n)
		off := int64(vChoose("offset", 3))
		vAssume(off <= length)
		wg.Add(1)
		go func() {
			defer wg.Done()
			dest := make([]byte, 2)
			res, errno := h.read(dest, off)
			vCover("fuse-read")
			vAssert(errno == 0, "EIO from a healthy store")
			if errno != 0 {
				return
			}
			b, _ := res.Bytes(nil)
			want := length - off
			if want > 2 {
				want = 2
			}
			vAssert(int64(len(b)) == want, "FUSE read returned fewer bytes than exist for the range")
			ok := true
			for c := 0; c < len(b) && int64(c) < want; c++ {
				ok = vAnd(ok, b[c] == blob[off+int64(c)])
			}
			vAssert(ok, "FUSE read on one handle returned bytes of another position (state shared between handles?)")
		}()
	}
	wg.Wait()
}

// VerifC09_FuseStoreErrors: the same FUSE handle over a store whose k-th GetChunk fails
// (k chosen by the solver).  A request is answered either with an error status or with the
// complete, correct range - a store failure on the second chunk of a request that spans a
// chunk boundary must not turn into a short OK reply (the kernel would zero-fill and cache it).
func VerifC09_FuseStoreErrors() {
	k, reads := 2, 2 // two requests on one handle: the second may be a retry after the first failed
	if vTier() > 0 {
		k = 2 + vChoose("chunks", 2)
	}
	blob, idx, st := verifBlobIndex(k, 2)
	st.useAt, st.failGetAt, st.failHasAt, st.failPutAt = true, vInt("fail-get-at"), -1, -1
	vAssume(st.failGetAt >= 0 && st.failGetAt < 3)
	length := int64(len(blob))
	h := verifFuseOpen(&indexFile{idx: idx, store: st})
	for q := 0; q < reads; q++ {
		off := vI64("offset")
		vAssume(off >= 0 && off <= length)
		l := vChoose("size", 5)
		dest := make([]byte, l)
		failedBefore := st.observed
		res, errno := h.read(dest, off)
		vCover("fuse-read")
		if errno != 0 {
			vAssert(st.observed && !failedBefore, "EIO although no store request of this read failed")
			continue
		}
		b, _ := res.Bytes(nil)
		want := length - off
		if want > int64(l) {
			want = int64(l)
		}
		vAssert(int64(len(b)) == want, "FUSE read answered OK with fewer bytes than exist for the range (store failure swallowed?)")
		ok := true
		for c := 0; c < len(b) && int64(c) < want; c++ {
			ok = vAnd(ok, b[c] == blob[off+int64(c)])
		}
		vAssert(ok, "FUSE read returned bytes that differ from the blob")
	}
}

type verifC09Ref struct {
	r      *IndexPos
	blob   []byte
	length int64
	pos    int64
	st     *verifStore
}

func (m *verifC09Ref) seek(off int64, whence int) {
	var want int64
	switch whence {
	case io.SeekStart:
		want = off
	case io.SeekCurrent:
		want = m.pos + off
	case io.SeekEnd:
		want = m.length + off
	}
	got, err := m.r.Seek(off, whence)
	vCover("seek")
	if err == nil {
		vAssert(whence <= 2, "invalid whence accepted")
		vAssert(got == want, "Seek returned a different position than requested")
		vAssert(got >= 0 && got <= m.length, "cursor outside the blob after a successful Seek")
		m.pos = got
	} else if err == io.EOF {
		vAssert(got == want && want > m.length, "EOF from Seek although the position is inside the blob")
		m.pos = got
	} else {
		vAssert(got == m.pos, "failed Seek reports a changed position")
	}
}

func (m *verifC09Ref) read(l int) {
	p := make([]byte, l)
	for c := range p {
		p[c] = 0xEE
	}
	n, err := m.r.Read(p)
	vCover("read")
	vAssert(n >= 0 && n <= l, "Read count out of range")
	if m.pos <= m.length {
		ok := true
		for c := 0; c < n; c++ {
			ok = vAnd(ok, m.pos+int64(c) < m.length && p[c] == m.blob[m.pos+int64(c)])
		}
		vAssert(ok, "Read returned bytes that differ from the blob")
	}
	if err == nil {
		vAssert(n > 0 || l == 0, "Read returned (0, nil) for a non-empty buffer")
	}
	if err == io.EOF {
		vAssert(m.pos+int64(n) >= m.length, "EOF before the end of the blob")
	}
	if m.st.failGet == nil && err != nil {
		vAssert(err == io.EOF, "error from Read although the store is healthy")
	}
	if m.st.failGet == nil && m.pos < m.length && l > 0 {
		vAssert(n > 0, "no progress reading inside the blob with a healthy store")
	}
	m.pos += int64(n)
}

// verifReaderRetry: the store fails one request (the k-th, solver-chosen) and works again
// afterwards; the reader is read four times in a row (a consumer that retries after an error, as
// the kernel does for a FUSE mount): every byte handed out is the blob's byte at that position.
func verifReaderRetry() {
	blob, idx, st := verifBlobIndex(2, 2)
	st.failGet = map[int]bool{vChoose("failing-get", 3): true}
	m := &verifC09Ref{r: NewIndexReadSeeker(idx, st), blob: blob, length: int64(len(blob)), st: st}
	for k := 0; k < 4; k++ {
		m.read(1 + vChoose("readlen", 2))
	}
}

// VerifC09_RetryAfterError: see verifReaderRetry.
func VerifC09_RetryAfterError() { verifReaderRetry() }

// VerifC09_CopyAll: the route of `desync cat`: Seek to an offset, then io.Copy (or io.CopyN)
// from the reader into a buffer - io.Copy uses whatever the reader offers (Read, or WriteTo if
// it has one).  Over a store whose k-th request fails or not at all: a nil result means that the
// copied bytes are exactly the rest of the blob, and a failed store request is an error.
func VerifC09_CopyAll() {
	blob, idx, st := verifBlobIndex(2, 2)
	st.useAt, st.failGetAt, st.failHasAt, st.failPutAt = true, vInt("fail-get-at"), -1, -1
	vAssume(st.failGetAt >= -1 && st.failGetAt < 2)
	r := NewIndexReadSeeker(idx, st)
	off := int64(vChoose("offset", len(blob)+1))
	_, err := r.Seek(off, io.SeekStart)
	vAssert(err == nil, "seek inside the blob failed")
	var out bytes.Buffer
	var n int64
	limited := vChoose("with-length", 2) == 1
	want := blob[off:]
	if limited {
		l := int64(vChoose("length", 3))
		if l > int64(len(want)) {
			l = int64(len(want))
		}
		want = want[:l]
		n, err = io.CopyN(&out, r, l)
	} else {
		n, err = io.Copy(&out, r)
	}
	vCover("copied")
	if err == nil {
		vAssert(n == int64(len(want)) && vEqBytes(out.Bytes(), want), "cat reported success but did not deliver exactly the requested bytes (store error swallowed?)")
	}
	if !st.observed {
		vAssert(err == nil, "cat failed over a healthy store")
	}
}

// VerifC09_History: Seek(start, p0); Read(l0); then one more arbitrary operation
// (thorough: two), all offsets symbolic 64-bit values, every result checked against the blob.
func VerifC09_History() {
	maxK, extra := 2, 1
	if vTier() > 0 {
		maxK, extra = 3, 2
	}
	k := 1 + vChoose("chunks", maxK)
	blob, idx, st := verifBlobIndex(k, 2)
	m := &verifC09Ref{r: NewIndexReadSeeker(idx, st), blob: blob, length: int64(len(blob)), st: st}
	m.seek(vI64("offset"), io.SeekStart)
	m.read([]int{0, 1, 3}[vChoose("readlen", 3)])
	for op := 0; op < extra; op++ {
		if vChoose("op", 2) == 0 {
			m.seek(vI64("offset"), vChoose("whence", 4))
		} else {
			m.read(vChoose("readlen", 4))
		}
	}
}

// VerifC09_StoreErrors: a failing store surfaces as an error, never as altered data.
func VerifC09_StoreErrors() {
	blob, idx, st := verifBlobIndex(2, 2)
	st.failGet = map[int]bool{vChoose("failing-get", 2): true}
	m := &verifC09Ref{r: NewIndexReadSeeker(idx, st), blob: blob, length: int64(len(blob)), st: st}
	m.read(1 + vChoose("readlen", 3))
	m.seek(vI64("offset"), io.SeekStart)
	m.read(1 + vChoose("readlen", 3))
}

// VerifC09_CorFileRestart: the file served by `mount-index --cor-file` across a restart that
// reuses saved state while the copy-on-read file was kept, lost, cut or grown (the body is C10's):
// every read returns the blob's bytes or an error.
func VerifC09_CorFileRestart() { VerifC10_Restart() }
