package desync

// C03: no chunk is delivered that does not hash to the requested ID.

import (
	"io"
	"os"
)

// verifDelivered checks the contract V(id, c): a chunk handed out for id decodes to bytes hashing to id.
func verifDelivered(id ChunkID, c *Chunk, err error, what string) {
	if err != nil {
		return
	}
	vCover(what + "-delivered")
	vAssert(c != nil, what+": nil chunk with nil error")
	b, derr := c.Data()
	if derr != nil {
		return // consumers see the error
	}
	vAssert(Digest.Sum(b) == id, what+": delivered data does not hash to the requested ID")
	vAssert(c.ID() == id, what+": delivered chunk reports another ID")
}

// VerifC03_Ctor: the verifying constructors, every converter stack, symbolic id and bytes.
func VerifC03_Ctor() {
	var id ChunkID
	copy(id[:], vBytes("id", 32))
	n := vChoose("len", 4)
	if vTier() > 0 {
		n = vChoose("len", 8)
	}
	b := vBytes("bytes", n)
	skip := vBool("skip-verify")
	switch vChoose("constructor", 3) {
	case 0:
		c, err := NewChunkWithID(id, b, skip)
		if !skip {
			verifDelivered(id, c, err, "NewChunkWithID")
		}
	case 1:
		c, err := NewChunkFromStorage(id, b, Converters{}, skip)
		if !skip {
			verifDelivered(id, c, err, "NewChunkFromStorage(raw)")
		}
	case 2:
		c, err := NewChunkFromStorage(id, b, Converters{Compressor{}}, skip)
		if !skip {
			verifDelivered(id, c, err, "NewChunkFromStorage(compressed)")
		}
	}
	vCover("constructed")
}

// VerifC03_Local: the stored object of a chunk is replaced by arbitrary bytes
// (truncated, emptied, garbage, another chunk's valid object, raw data in a compressed
// slot and vice versa are all instances); GetChunk either fails or delivers the right data.
func VerifC03_Local() {
	unc := vChoose("uncompressed", 2) == 1
	base := vTempDir()
	s, _ := NewLocalStore(base, StoreOptions{Uncompressed: unc})
	good := NewChunk([]byte{0x61, 0x62})
	id := good.ID()
	vAssert(s.StoreChunk(good) == nil, "StoreChunk")
	_, p := s.nameFromID(id)
	kind := vChoose("corruption", 3)
	switch kind {
	case 0: // untouched
	case 1: // arbitrary bytes of arbitrary length
		n := vChoose("len", 8)
		os.WriteFile(p, vBytes("object", n), 0644)
	case 2: // another chunk's valid object
		other := NewChunk(vBytes("other", 2))
		vAssert(s.StoreChunk(other) == nil, "StoreChunk other")
		_, op := s.nameFromID(other.ID())
		ob, _ := os.ReadFile(op)
		os.WriteFile(p, ob, 0644)
	}
	c, err := s.GetChunk(id)
	vCover("get-returned")
	verifDelivered(id, c, err, "LocalStore.GetChunk")
	if kind == 0 {
		vAssert(err == nil, "intact chunk rejected")
	}
	// a missing object is reported as missing
	os.Remove(p)
	_, err = s.GetChunk(id)
	_, missing := err.(ChunkMissing)
	vAssert(missing, "missing object not reported as ChunkMissing")
}

// VerifC03_ReaderRetry: consumers of the stores - the seekable reader must not hand out bytes of
// another chunk after a store request failed (see verifReaderRetry in the C09 harnesses).
func VerifC03_ReaderRetry() { verifReaderRetry() }

// VerifC03_NullChunkDigest: the all-zero shortcut of the readers (a chunk whose ID is the null
// chunk's is produced without asking the store) under a process that works with both digests,
// one after the other: what a reader hands out for an ID hashes to that ID under the digest in
// force - an ID that is the null chunk's under the *other* digest is looked up in the store.
func VerifC03_NullChunkDigest() {
	zeros := []byte{0, 0}
	digests := []HashAlgorithm{SHA512256{}, SHA256{}}
	first := vChoose("first-digest", 2)
	Digest = digests[first]
	idx1 := Index{Index: FormatIndex{ChunkSizeMin: 1, ChunkSizeAvg: 1, ChunkSizeMax: 2}, Chunks: []IndexChunk{{ID: Digest.Sum(zeros), Start: 0, Size: 2}}}
	r1 := NewIndexReadSeeker(idx1, &verifStore{})
	b1 := make([]byte, 2)
	n, err := r1.Read(b1)
	vAssert(n == 2 && (err == nil || err == io.EOF) && b1[0] == 0 && b1[1] == 0, "null chunk not served under the first digest")
	staleID := Digest.Sum(zeros)
	Digest = digests[1-first]
	vCover("digest-switched")
	idx2 := Index{Index: FormatIndex{ChunkSizeMin: 1, ChunkSizeAvg: 1, ChunkSizeMax: 2}, Chunks: []IndexChunk{{ID: staleID, Start: 0, Size: 2}}}
	r2 := NewIndexReadSeeker(idx2, &verifStore{}) // the store does not have that ID
	b2 := make([]byte, 2)
	n, err = r2.Read(b2)
	if n > 0 {
		vAssert(Digest.Sum(b2[:n]) == staleID, "the reader handed out bytes that do not hash to the requested ID under the digest in force")
	}
	vAssert(err != nil, "a chunk the store does not have was read without an error")
}

// VerifC03_SparseConcurrent: consumers of the stores - the copy-on-read sparse file behind
// `mount-index --cor-file` with two concurrent readers over a store with a failing request
// (the body is C10's): no reader is handed bytes that are not the blob's.
func VerifC03_SparseConcurrent() { VerifC10_Concurrent() }

// VerifC03_LocalHold: a chunk obtained from a local store (either format) is held while the
// next one is fetched from the same store (prefetching, several workers): what was handed out
// first still decodes to bytes hashing to its ID afterwards - its storage is not recycled.
func VerifC03_LocalHold() {
	unc := vChoose("uncompressed", 2) == 1
	ls, _ := NewLocalStore(vTempDir(), StoreOptions{Uncompressed: unc})
	a, b := NewChunk([]byte{0x61, 0x62}), NewChunk([]byte{0x63, 0x64})
	vAssert(ls.StoreChunk(a) == nil && ls.StoreChunk(b) == nil, "store setup")
	ca, err := ls.GetChunk(a.ID())
	vAssert(err == nil, "get a")
	cb, err := ls.GetChunk(b.ID())
	vAssert(err == nil, "get b")
	vCover("both-fetched")
	verifDelivered(a.ID(), ca, nil, "LocalStore.GetChunk (held over the next fetch)")
	verifDelivered(b.ID(), cb, nil, "LocalStore.GetChunk")
}
