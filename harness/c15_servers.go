package desync

// C15: HTTP servers enforce authorization, read-only mode and path confinement.
// C14 (server part): present -> 200 + bytes, missing -> 404, failure -> neither.

import (
	"bytes"
	"io/ioutil"
	"net/http"
	"net/url"
	"os"
	"sync"
)

type verifRW struct {
	code int
	hdr  http.Header
	body []byte
}

func (w *verifRW) Header() http.Header {
	if w.hdr == nil {
		w.hdr = http.Header{}
	}
	return w.hdr
}
func (w *verifRW) Write(b []byte) (int, error) {
	if w.code == 0 {
		w.code = 200
	}
	w.body = append(w.body, b...)
	return len(b), nil
}
func (w *verifRW) WriteHeader(c int) {
	if w.code == 0 {
		w.code = c
	}
}

// verifPathAlphabet restricts symbolic path bytes to one representative per class the
// lexical path functions distinguish, plus hex digits in both cases and a non-hex letter.
func verifPathAlphabet(s string) {
	for k := 0; k < len(s); k++ {
		b := s[k]
		vAssume(vOr(vOr(b == '/', b == '.'), vOr(vOr(b == 'a', b == 'A'), vOr(b == '0', b == 'g'))))
	}
}

func verifLower(s string) string {
	out := make([]byte, len(s))
	for k := 0; k < len(s); k++ {
		out[k] = vIteU8(vAnd(s[k] >= 'A', s[k] <= 'Z'), s[k]+32, s[k])
	}
	return string(out)
}

func verifRequest(method, path string, auth *string, body []byte) *http.Request {
	r := &http.Request{Method: method, URL: &url.URL{Path: path}, Header: http.Header{}, Body: ioutil.NopCloser(bytes.NewReader(body))}
	if auth != nil {
		r.Header["Authorization"] = []string{*auth}
	}
	return r
}

// VerifC15_IDFromPath: a path is accepted only if it is exactly /<id[0:4]>/<id><ext>.
func VerifC15_IDFromPath() {
	compressed := vChoose("compressed", 2) == 1
	// symbolic bytes at the structural positions, concrete hex digits in between
	mid := "00112233445566778899aabbccddeeff00112233445566778899aabbccdd" // 60 of the 64 id digits... (positions 4..62)
	sym := func(name string, n int) string {
		v := vStr(name, n)
		verifPathAlphabet(v)
		return v
	}
	// the name is a full ID (64 digits) or a shorter / longer even-length hex string
	k := []int{59, 1, 3, 57, 61}[vChoose("id-digits", 5)]
	p := sym("lead", 1) + sym("prefix", 4) + sym("sep", 1) + sym("idhead", 4) + (mid + "ee")[:k] + sym("idtail", 1)
	switch vChoose("suffix", 4) {
	case 0:
	case 1:
		p += ".cacnk"
	case 2:
		p += sym("ext", 2)
	case 3:
		p += "/" + sym("extra", 1)
	}
	conv := Converters{}
	if compressed {
		conv = Converters{Compressor{}}
	}
	h := NewHTTPHandler(&verifStore{}, false, false, conv, "").(HTTPHandler)
	id, err := h.idFromPath(p)
	vCover("idFromPath-returned")
	if err == nil {
		vCover("path-accepted")
		ext := ""
		if compressed {
			ext = ".cacnk"
		}
		hx := verifHexOf(id[:])
		vAssert(verifLower(p) == "/"+hx[0:4]+"/"+hx+ext, "accepted path is not /<id[0:4]>/<id><ext> for the ID that is used")
	}
}

// VerifC15_ChunkServer: authorization, read-only mode and write verification.
func VerifC15_ChunkServer() {
	st := &verifStore{}
	good := NewChunk([]byte{0x61, 0x62})
	id := st.add([]byte{0x61, 0x62})
	_ = good
	hx := verifHexOf(id[:])
	auth := []string{"", "secret"}[vChoose("auth-configured", 2)]
	var hdr *string
	switch vChoose("header", 3) {
	case 1:
		v := vStr("authorization", 6)
		hdr = &v
	case 2:
		v := vStr("authorization", 5+2*vChoose("hlen", 2))
		hdr = &v
	}
	writable := vBool("writable")
	skipVerify := vBool("skip-verify-write")
	method := []string{"GET", "HEAD", "PUT", "POST"}[vChoose("method", 4)]
	body := vBytes("body", 2)
	h := NewHTTPHandler(st, writable, skipVerify, Converters{}, auth)
	w := &verifRW{}
	h.ServeHTTP(w, verifRequest(method, "/"+hx[0:4]+"/"+hx, hdr, body))
	vCover("served")
	calls := st.gets + st.hass + st.puts
	if auth != "" {
		ok := hdr != nil && *hdr == auth
		if !ok {
			vAssert(calls == 0, "store touched by a request without the configured authorization value")
			vAssert(w.code == 401, "request without the authorization value not answered 401")
		}
	}
	if !writable {
		vAssert(st.puts == 0, "read-only server wrote to its store")
	}
	if st.puts > 0 {
		vCover("stored")
		vAssert(method == "PUT", "store written by a non-PUT request")
		if !skipVerify {
			vAssert(Digest.Sum(body) == id, "uploaded chunk whose content does not match the ID was stored")
		}
	}
	if calls > 0 && method == "GET" && w.code == 200 {
		vAssert(vEqBytes(w.body, []byte{0x61, 0x62}), "GET returned other bytes than the stored chunk")
	}
}

// VerifC14_ChunkServerStatus: present / missing / failing store through GET and HEAD.
func VerifC14_ChunkServerStatus() {
	st := &verifStore{}
	id := st.add([]byte{0x61, 0x62})
	hx := verifHexOf(id[:])
	state := verifSymChoice("store-state", 3) // 0 present, 1 missing, 2 failing
	if state == 1 {
		st.entries = nil
	}
	if state == 2 {
		st.failGet = map[int]bool{0: true}
		st.failHas = map[int]bool{0: true}
	}
	method := []string{"GET", "HEAD"}[vChoose("method", 2)]
	h := NewHTTPHandler(st, false, false, Converters{}, "")
	w := &verifRW{}
	h.ServeHTTP(w, verifRequest(method, "/"+hx[0:4]+"/"+hx, nil, nil))
	vCover("served")
	switch state {
	case 0:
		vAssert(w.code == 200, "present chunk not answered 200")
	case 1:
		vAssert(w.code == 404, "missing chunk not answered 404")
	case 2:
		vAssert(w.code != 200 && w.code != 201 && w.code != 404, "store failure answered as present or missing")
	}
}

func verifIndexBytes() []byte {
	idx := Index{Index: FormatIndex{FeatureFlags: CaFormatSHA512256, ChunkSizeMin: 1, ChunkSizeAvg: 1, ChunkSizeMax: 1},
		Chunks: []IndexChunk{{ID: verifID(9), Start: 0, Size: 1}}}
	var b bytes.Buffer
	idx.WriteTo(&b)
	return b.Bytes()
}

// VerifC14_IndexServerStatus: present / missing index through GET and HEAD.
func VerifC14_IndexServerStatus() {
	root := vTempDir()
	os.Mkdir(root+"/indexes", 0755)
	os.WriteFile(root+"/indexes/a.caibx", verifIndexBytes(), 0644)
	s, _ := NewLocalIndexStore(root + "/indexes")
	present := vChoose("present", 2) == 1
	name := "/b.caibx"
	if present {
		name = "/a.caibx"
	}
	method := []string{"GET", "HEAD"}[vChoose("method", 2)]
	h := NewHTTPIndexHandler(s, false, "")
	w := &verifRW{}
	h.ServeHTTP(w, verifRequest(method, name, nil, nil))
	vCover("served")
	if present {
		vAssert(w.code == 200, "existing index not answered 200")
		if method == "GET" {
			vAssert(vEqBytes(w.body, verifIndexBytes()), "index bytes changed in transport")
		}
	} else {
		vAssert(w.code == 404, "missing index not answered 404")
	}
}

// VerifC15_IndexServer: authorization, read-only mode and confinement to the store directory.
func VerifC15_IndexServer() {
	root := vTempDir()
	os.Mkdir(root+"/indexes", 0755)
	os.WriteFile(root+"/indexes/a", verifIndexBytes(), 0644)
	os.WriteFile(root+"/secret", verifIndexBytes(), 0644)
	s, _ := NewLocalIndexStore(root + "/indexes")
	auth := []string{"", "secret"}[vChoose("auth-configured", 2)]
	var hdr *string
	if vChoose("header", 2) == 1 {
		v := vStr("authorization", 6)
		hdr = &v
	}
	writable := vBool("writable")
	method := []string{"GET", "HEAD", "PUT"}[vChoose("method", 3)]
	n := 1 + vChoose("pathlen", 4)
	if vTier() > 0 {
		n = 1 + vChoose("pathlen", 7)
	}
	p := vStr("path", n)
	for k := 0; k < len(p); k++ {
		b := p[k]
		vAssume(vOr(vOr(b == '/', b == '.'), vOr(b == 'a', b == 's')))
	}
	h := NewHTTPIndexHandler(s, writable, auth)
	w := &verifRW{}
	opens, muts := vFSCalls("open"), vFSMutations()
	h.ServeHTTP(w, verifRequest(method, p, hdr, verifIndexBytes()))
	vCover("served")
	if auth != "" && !(hdr != nil && *hdr == auth) {
		vAssert(vFSCalls("open") == opens && vFSMutations() == muts, "index store touched by a request without the configured authorization value")
		vAssert(w.code == 401, "request without the authorization value not answered 401")
	}
	if !writable {
		vAssert(vFSMutations() == muts, "read-only index server modified its store")
	}
	// nothing outside the store directory is created, changed or served
	b, err := os.ReadFile(root + "/secret")
	vAssert(err == nil && vEqBytes(b, verifIndexBytes()), "file outside the index store changed")
	for _, f := range vFSList(root) {
		vAssert(f == root+"/indexes" || f == root+"/secret" || len(f) > len(root)+9 && f[:len(root)+9] == root+"/indexes/", "object created outside the index store")
	}
}

// VerifC15_ConcurrentPut: two uploads (different chunks) served concurrently by a verifying,
// writable chunk server whose upstream store takes its time: under every interleaving what
// ends up in the store under each ID is that upload's content (an upload that was verified
// must be the upload that is stored - no buffer shared between requests).
func VerifC15_ConcurrentPut() {
	vPreempt(2)
	st := &verifStore{yield: true}
	unc := vChoose("server-uncompressed", 2) == 1
	conv := Converters{Compressor{}}
	if unc {
		conv = Converters{}
	}
	h := NewHTTPHandler(st, true, false, conv, "")
	datas := [][]byte{{0x61, 0x62}, {0x63, 0x64}}
	codes := make([]int, 2)
	var wg sync.WaitGroup
	for k := range datas {
		k := k
		wg.Add(1)
		go func() {
			defer wg.Done()
			c := NewChunk(datas[k])
			id := c.ID()
			hx := verifHexOf(id[:])
			body := datas[k]
			ext := ""
			if !unc {
				body, _ = Compress(datas[k])
				ext = CompressedChunkExt
			}
			w := &verifRW{}
			h.ServeHTTP(w, verifRequest("PUT", "/"+hx[0:4]+"/"+hx+ext, nil, body))
			codes[k] = w.code
		}()
	}
	wg.Wait()
	vCover("both-served")
	for k := range datas {
		vAssert(codes[k] == 200, "a valid upload was refused")
		id := NewChunk(datas[k]).ID()
		b, ok := st.find(id)
		vAssert(ok, "an accepted upload is not in the store")
		if ok {
			vAssert(bytes.Equal(b, datas[k]), "content stored under an ID is not the content that was uploaded and verified for it")
		}
	}
}
