package desync

// C18: unpacking an archive never writes outside the destination directory.

import (
	"bytes"
	"context"
	"os"
	"syscall"
	"time"

	"github.com/pkg/xattr"
)

func verifNameAlphabet(s string) {
	for k := 0; k < len(s); k++ {
		b := s[k]
		vAssume(vOr(vOr(b == '/', b == '.'), vOr(b == 'a', b == 'b')))
	}
}

func verifSymName(what string, max int) string {
	n := 1 + vChoose(what+"-len", max)
	s := vStr(what, n)
	verifNameAlphabet(s)
	return s
}

type verifArchive struct {
	buf bytes.Buffer
	enc FormatEncoder
}

func newVerifArchive() *verifArchive {
	a := &verifArchive{}
	a.enc = NewFormatEncoder(&a.buf)
	return a
}

func (a *verifArchive) entry(mode os.FileMode) {
	a.enc.Encode(FormatEntry{FormatHeader: FormatHeader{Size: 64, Type: CaFormatEntry}, FeatureFlags: TarFeatureFlags, Mode: mode, UID: 0, GID: 0, MTime: time.Unix(0, 5)})
}
func (a *verifArchive) filename(n string) {
	a.enc.Encode(FormatFilename{FormatHeader: FormatHeader{Size: uint64(16 + len(n) + 1), Type: CaFormatFilename}, Name: n})
}
func (a *verifArchive) symlink(t string) {
	a.enc.Encode(FormatSymlink{FormatHeader: FormatHeader{Size: uint64(16 + len(t) + 1), Type: CaFormatSymlink}, Target: t})
}
func (a *verifArchive) payload(b []byte) {
	a.enc.Encode(FormatPayload{FormatHeader: FormatHeader{Size: uint64(16 + len(b)), Type: CaFormatPayload}, Data: bytes.NewReader(b)})
}
func (a *verifArchive) goodbye() {
	a.enc.Encode(FormatGoodbye{FormatHeader: FormatHeader{Size: 16 + 24, Type: CaFormatGoodbye}, Items: []FormatGoodbyeItem{{Offset: 0, Size: 0, Hash: CaFormatGoodbyeTailMarker}}})
}

// verifRootNotDir: the archive under test has a root entry that is not a directory.
var verifRootNotDir bool

// verifSandbox: parent/{dest, sentinel, sib/inner}; returns parent and a checker that the
// world outside dest is unchanged.
func verifSandbox(setup ...func(parent string)) (parent, dest string, check func()) {
	parent = vTempDir()
	dest = parent + "/dest"
	os.Mkdir(dest, 0755)
	os.WriteFile(parent+"/sentinel", []byte("S"), 0600)
	os.Mkdir(parent+"/sib", 0700)
	os.WriteFile(parent+"/sib/inner", []byte("I"), 0600)
	for _, f := range setup {
		f(parent)
	}
	outside := func() int {
		// the whole (model / jailed) file system except the destination path itself and what is beneath it
		self := 0
		if _, err := os.Lstat(dest); err == nil {
			self = 1
		}
		if all := vFSList("/"); all != nil {
			return len(all) - len(vFSList(dest)) - self
		}
		return len(vFSList(parent)) - len(vFSList(dest)) - self
	}
	before := outside()
	pst, _ := os.Lstat(parent)
	cwd, _ := os.Getwd()
	rst, _ := os.Lstat(cwd)
	check = func() {
		if rst2, rerr := os.Lstat(cwd); rerr == nil && rst != nil {
			vAssert(rst2.Mode() == rst.Mode(), "mode of the working directory changed (metadata applied to a path relative to it?)")
		}
		pst2, perr := os.Lstat(parent)
		vAssert(perr == nil && pst2.Mode() == pst.Mode(), "type or mode of the directory that holds the destination changed")
		vAssert(outside() == before, "an object was created or removed outside the destination directory")
		if !verifRootNotDir { // (an archive whose root is a file or a link is unpacked *as* the destination path)
			st0, err0 := os.Lstat(dest)
			vAssert(err0 == nil && st0.IsDir(), "the destination directory itself was removed or replaced (by a symlink?)")
		}
		b, err := os.ReadFile(parent + "/sentinel")
		vAssert(err == nil && string(b) == "S", "a file outside the destination directory was modified")
		b, err = os.ReadFile(parent + "/sib/inner")
		vAssert(err == nil && string(b) == "I", "a file in a sibling directory was modified")
		st, err := os.Lstat(parent + "/sentinel")
		vAssert(err == nil && st.Mode().IsRegular() && st.Mode().Perm() == 0600, "type or mode of a file outside the destination changed")
		st, err = os.Lstat(parent + "/sib")
		vAssert(err == nil && st.IsDir() && st.Mode().Perm() == 0700, "type or mode of a sibling directory changed")
	}
	return
}

// VerifC18_UnTar: hostile element sequences (symbolic names and link targets) through
// UnTar into a LocalFS.
func VerifC18_UnTar() {
	max := 3
	if vTier() > 0 {
		max = 4
	}
	a := newVerifArchive()
	a.entry(os.ModeDir | []os.FileMode{0755, 0711}[vChoose("root-mode", 2)]) // the root entry's metadata goes onto the destination, and only there
	switch vChoose("shape", 4) {
	case 0: // one file
		a.filename(verifSymName("name", max))
		a.entry(0644)
		a.payload([]byte("x"))
	case 1: // a symlink, then a file
		a.filename(verifSymName("linkname", max))
		a.entry(os.ModeSymlink | 0777)
		a.symlink(verifSymName("target", max))
		a.filename(verifSymName("name", max))
		a.entry(0644)
		a.payload([]byte("x"))
	case 2: // a sub-directory with a file in it
		a.filename(verifSymName("dirname", max))
		a.entry(os.ModeDir | 0755)
		a.filename(verifSymName("name", max))
		a.entry(0644)
		a.payload([]byte("x"))
		a.goodbye()
	case 3: // a symlink, then a directory entry of some name with a file beneath it
		a.filename(verifSymName("linkname", 2))
		a.entry(os.ModeSymlink | 0777)
		a.symlink(verifSymName("target", max))
		a.filename(verifSymName("dirname", 2))
		a.entry(os.ModeDir | 0755)
		a.filename(verifSymName("name", 2))
		a.entry(0644)
		a.payload([]byte("x"))
		a.goodbye()
	}
	a.goodbye()
	_, dest, check := verifSandbox()
	fs := NewLocalFS(dest, LocalFSOptions{})
	if vChoose("literal-localfs", 2) == 1 {
		fs = &LocalFS{Root: dest} // the exported field is the API too: a writer built without the constructor
	}
	err := UnTar(context.Background(), bytes.NewReader(a.buf.Bytes()), fs)
	vCover("untar-returned")
	if err == nil {
		vCover("untar-succeeded")
	}
	check()
}

// VerifC18_UnTarIndex: the same through the chunked path (untar -i): the archive is one chunk in a store.
func VerifC18_UnTarIndex() {
	vSchedFixed(true) // pipeline goroutine order is not the subject
	vPreempt(0)
	a := newVerifArchive()
	a.entry(os.ModeDir | 0755)
	if vChoose("shape", 2) == 0 {
		a.filename(verifSymName("name", 3))
		a.entry(0644)
		a.payload([]byte("x"))
	} else {
		a.filename(verifSymName("linkname", 2))
		a.entry(os.ModeSymlink | 0777)
		a.symlink(verifSymName("target", 3))
		a.filename(verifSymName("name", 3))
		a.entry(0644)
		a.payload([]byte("x"))
	}
	a.goodbye()
	data := a.buf.Bytes()
	st := &verifStore{}
	id := verifID(0x18)
	st.entries = append(st.entries, verifEntry{id: id, data: data})
	idx := Index{Index: FormatIndex{FeatureFlags: CaFormatSHA512256 | TarFeatureFlags, ChunkSizeMin: 1, ChunkSizeAvg: 1, ChunkSizeMax: uint64(len(data))},
		Chunks: []IndexChunk{{ID: id, Start: 0, Size: uint64(len(data))}}}
	_, dest, check := verifSandbox()
	fs := NewLocalFS(dest, LocalFSOptions{})
	err := UnTarIndex(context.Background(), fs, idx, st, 1, NullProgressBar{})
	vCover("untar-returned")
	if err == nil {
		vCover("untar-succeeded")
	}
	check()
}

// VerifC18_Sequences: hostile element *sequences* - after the root entry, every step is the
// solver's pick of: a file, a sub-directory entry, a symlink, a goodbye, or a symlink / file
// entry that is not preceded by a filename element (so goodbyes may
// outnumber open directories, directories may be left open, entries may follow the root's
// goodbye).  Names and targets are symbolic.
func VerifC18_Sequences() {
	steps, max := 3, 2
	if vTier() > 0 {
		steps, max = 4, 2 // 4 steps with names of up to 3 bytes did not finish within the 900 s budget
	}
	a := newVerifArchive()
	a.entry(os.ModeDir | 0755)
	n := 1 + vChoose("steps", steps)
	for k := 0; k < n; k++ {
		switch vChoose("element", 6) {
		case 4: // an entry without a filename element: the decoder resolves it to the directory it is in
			a.entry(os.ModeSymlink | 0777)
			a.symlink(verifSymName("target", max))
		case 5:
			a.entry(0644)
			a.payload([]byte("x"))
		case 0:
			a.filename(verifSymName("name", max))
			a.entry(0644)
			a.payload([]byte("x"))
		case 1:
			a.filename(verifSymName("dirname", max))
			a.entry(os.ModeDir | 0755)
		case 2:
			a.filename(verifSymName("linkname", max))
			a.entry(os.ModeSymlink | 0777)
			a.symlink(verifSymName("target", max))
		case 3:
			a.goodbye()
		}
	}
	_, dest, check := verifSandbox()
	fs := NewLocalFS(dest, LocalFSOptions{})
	err := UnTar(context.Background(), bytes.NewReader(a.buf.Bytes()), fs)
	vCover("untar-returned")
	if err == nil {
		vCover("untar-succeeded")
	}
	check()
}

func (a *verifArchive) xattr(name, val string) {
	nv := name + "\x00" + val
	a.enc.Encode(FormatXAttr{FormatHeader: FormatHeader{Size: uint64(16 + len(nv) + 1), Type: CaFormatXAttr}, NameAndValue: nv})
}

// VerifC18_SymlinkXattr: a symlink entry that carries an extended attribute and points
// (symbolic target) wherever the archive likes: the attribute is never written onto an object
// outside the destination (it belongs to the link itself, if anywhere).
func VerifC18_SymlinkXattr() {
	parent, dest, check := verifSandbox()
	a := newVerifArchive()
	a.entry(os.ModeDir | 0755)
	a.filename(verifSymName("linkname", 1))
	a.entry(os.ModeSymlink | 0777)
	a.xattr("user.verif", "x")
	a.symlink(verifSymName("target", 4))
	a.goodbye()
	fs := NewLocalFS(dest, LocalFSOptions{})
	err := UnTar(context.Background(), bytes.NewReader(a.buf.Bytes()), fs)
	vCover("untar-returned")
	_ = err
	for _, p := range []string{parent, parent + "/sentinel", parent + "/sib", parent + "/sib/inner", "/"} {
		names, lerr := xattr.LList(p)
		vAssert(lerr != nil || len(names) == 0, "an extended attribute was written onto an object outside the destination")
	}
	check()
}

func (a *verifArchive) device(major, minor uint64) {
	a.enc.Encode(FormatDevice{FormatHeader: FormatHeader{Size: 32, Type: CaFormatDevice}, Major: major, Minor: minor})
}

// VerifC18_DeviceOverSymlink: a symlink entry, then a device entry (names and link target
// symbolic) while a device node of the very same kind and number exists outside the destination
// (as /dev/null does on every system): whatever the names, the outside node keeps its mode,
// owner and time - a device entry replaces what is at its name, it never adopts it through a link.
func VerifC18_DeviceOverSymlink() {
	parent, dest, check := verifSandbox(func(parent string) {
		vAssert(syscall.Mknod(parent+"/b", syscall.S_IFCHR|0600, int(mkdev(1, 3))) == nil, "mknod of the outside node (needs privileges natively)")
		os.Chtimes(parent+"/b", time.Unix(1000, 0), time.Unix(1000, 0))
	})
	outside := parent + "/b"
	before, _ := os.Lstat(outside)
	a := newVerifArchive()
	a.entry(os.ModeDir | 0755)
	a.filename(verifSymName("linkname", 1))
	a.entry(os.ModeSymlink | 0777)
	a.symlink(verifSymName("target", 4))
	a.filename(verifSymName("devname", 1))
	a.enc.Encode(FormatEntry{FormatHeader: FormatHeader{Size: 64, Type: CaFormatEntry}, FeatureFlags: TarFeatureFlags, Mode: os.ModeDevice | os.ModeCharDevice | 0666, UID: 7, GID: 7, MTime: time.Unix(0, 5)})
	a.device(1, 3)
	a.goodbye()
	fs := NewLocalFS(dest, LocalFSOptions{})
	err := UnTar(context.Background(), bytes.NewReader(a.buf.Bytes()), fs)
	vCover("untar-returned")
	_ = err
	after, serr := os.Lstat(outside)
	vAssert(serr == nil && after.Mode() == before.Mode() && after.ModTime().Equal(before.ModTime()), "a device node outside the destination had its mode or time changed")
	check()
}

// VerifC18_SameNameTwice: hostile archives that use one name several times in the root
// directory: three entries called "a", each the solver's pick of directory (closed at once),
// regular file or symlink (symbolic target).  Whatever replaces whatever, nothing outside the
// destination changes - also not by metadata that is applied after the last entry.
func VerifC18_SameNameTwice() {
	a := newVerifArchive()
	a.entry(os.ModeDir | 0755)
	for k := 0; k < 3; k++ {
		a.filename("a")
		switch vChoose("kind", 3) {
		case 0:
			a.entry(os.ModeDir | 0777)
			a.goodbye()
		case 1:
			a.entry(0666)
			a.payload([]byte("x"))
		case 2:
			a.entry(os.ModeSymlink | 0777)
			a.symlink(verifSymName("target", 4))
		}
	}
	a.goodbye()
	_, dest, check := verifSandbox()
	fs := NewLocalFS(dest, LocalFSOptions{})
	err := UnTar(context.Background(), bytes.NewReader(a.buf.Bytes()), fs)
	vCover("untar-returned")
	_ = err
	check()
}

// VerifC18_RootNotDirectory: archives whose first (root) entry is a symlink or a regular file,
// followed by further named entries, unpacked to a destination path that exists as a directory or
// does not exist yet: nothing outside the destination path is created or changed - in particular
// a root symlink must not turn the destination into a link behind which the rest is written.
func VerifC18_RootNotDirectory() {
	verifRootNotDir = true
	a := newVerifArchive()
	if vChoose("root-kind", 2) == 0 {
		a.entry(os.ModeSymlink | 0777)
		a.symlink(verifSymName("target", 4))
	} else {
		a.entry(0644)
		a.payload([]byte("r"))
	}
	a.filename(verifSymName("name", 1))
	a.entry(0644)
	a.payload([]byte("x"))
	exists := vChoose("destination-exists", 2) == 1
	_, dest, check := verifSandbox(func(parent string) {
		if !exists {
			os.Remove(parent + "/dest")
		}
	})
	fs := NewLocalFS(dest, LocalFSOptions{})
	err := UnTar(context.Background(), bytes.NewReader(a.buf.Bytes()), fs)
	vCover("untar-returned")
	_ = err
	check()
}
