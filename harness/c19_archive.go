package desync

// C19: the archive decoder (element state machine above the format decoder) on hostile streams.

import (
	"bytes"
	"context"
	"io"
	"os"
)

// VerifC19_Archive: a well-formed entry followed by two elements of solver-chosen known
// type with length-consistent headers and arbitrary body bytes (strings without NUL, xattrs
// without separator, goodbyes of any item count, elements in any order), then the end of the
// stream: ArchiveDecoder.Next returns nodes or errors and never panics.
func VerifC19_Archive() {
	vConcCap(600)
	types := []uint64{CaFormatEntry, CaFormatUser, CaFormatGroup, CaFormatXAttr, CaFormatSELinux, CaFormatFCaps,
		CaFormatSymlink, CaFormatDevice, CaFormatPayload, CaFormatFilename, CaFormatGoodbye, CaFormatACLUser, CaFormatACLDefault}
	bodies := []int{0, 1, 3, 9}
	if vTier() > 0 {
		bodies = []int{0, 1, 2, 3, 8, 9, 16, 24, 48}
	}
	a := newVerifArchive()
	mode := os.FileMode(0644)
	switch vChoose("first-entry", 3) {
	case 1:
		mode = os.ModeDir | 0755
	case 2:
		mode = os.ModeSymlink | 0777
	}
	a.entry(mode)
	in := append([]byte(nil), a.buf.Bytes()...)
	for k := 0; k < 2; k++ {
		typ := types[vChoose("element-type", len(types))]
		n := bodies[vChoose("body-length", len(bodies))]
		in = append(in, verifLE64(uint64(16+n))...)
		in = append(in, verifLE64(typ)...)
		in = append(in, vBytes("body", n)...)
	}
	vInput(len(in))
	d := NewArchiveDecoder(bytes.NewReader(in))
	for k := 0; k < 6; k++ {
		v, err := d.Next()
		vCover("next-returned")
		if err != nil || v == nil {
			break
		}
		if f, ok := v.(NodeFile); ok && f.Data != nil {
			io.Copy(io.Discard, f.Data)
		}
	}
}

// VerifC19_ProtocolServer: the casync protocol server fed by a hostile client: a valid HELLO,
// then a message of solver-chosen type with a length-consistent header and an arbitrary body of
// any small length (requests shorter than a chunk ID, empty bodies, unknown types), then the end
// of the stream.  Serve returns (an error or nil) and never panics.
func VerifC19_ProtocolServer() {
	vConcCap(600)
	vSchedFixed(true) // the handshake's two goroutines are a sequential exchange here
	msg := func(typ uint64, body []byte) []byte {
		b := append(verifLE64(uint64(16+len(body))), verifLE64(typ)...)
		return append(b, body...)
	}
	// the first message: a proper HELLO, or a HELLO whose body is shorter / longer than the 8 flag bytes
	in := msg(CaProtocolHello, verifLE64(CaProtocolPullChunks))
	hl := []int{8, 0, 1, 7, 9, 16}[vChoose("hello-body-length", 6)]
	if hl != 8 {
		in = msg(CaProtocolHello, vBytes("hello-body", hl))
	}
	types := []uint64{CaProtocolRequest, CaProtocolAbort, CaProtocolGoodbye, CaProtocolChunk, CaProtocolMissing, CaProtocolHello, 0x1234}
	lens := []int{0, 1, 7, 8, 9, 39, 40, 41}
	nmsg := 1 + vChoose("messages", 2)
	if hl != 8 {
		nmsg = 0 // the handshake is the subject
	}
	for k := 0; k < nmsg; k++ {
		typ := types[vChoose("message-type", len(types))]
		in = append(in, msg(typ, vBytes("body", lens[vChoose("body-length", len(lens))]))...)
	}
	vInput(len(in))
	st := &verifStore{}
	st.add([]byte{0x61})
	var out bytes.Buffer
	srv := NewProtocolServer(bytes.NewReader(in), &out, st)
	err := srv.Serve(context.Background())
	vCover("serve-returned")
	_ = err
}
