package desync

// C06: bulk writes are complete when they report success; any store failure is reported.

import (
	"bytes"
	"context"
	"os"
)

// verifSymBlob: k one-byte chunks with symbolic content, so the solver decides which
// chunks are duplicates (equal data <=> equal ID under the collision-free hash).
func verifSymBlob(k int) (string, []byte, Index, *verifStore) {
	dir := vTempDir()
	name := dir + "/blob"
	st := &verifStore{}
	idx := Index{Index: FormatIndex{FeatureFlags: CaFormatSHA512256, ChunkSizeMin: 1, ChunkSizeAvg: 1, ChunkSizeMax: 1}}
	blob := vBytes("blob", k)
	for c := 0; c < k; c++ {
		id := st.add(blob[c : c+1])
		idx.Chunks = append(idx.Chunks, IndexChunk{ID: id, Start: uint64(c), Size: 1})
	}
	os.WriteFile(name, blob, 0644)
	return name, blob, idx, st
}

func verifAllStored(dst *verifStore, idx Index, what string) {
	for _, c := range idx.Chunks {
		b, ok := dst.find(c.ID)
		vAssert(ok, what+" reported success although a chunk of the index is not in the store")
		if ok {
			vAssert(Digest.Sum(b) == c.ID, what+" stored data that does not hash to the chunk ID")
		}
	}
}

func VerifC06_ChopFile() {
	k := 2 + vChoose("chunks", 2)
	name, _, idx, _ := verifSymBlob(k)
	dst := &verifStore{yield: true}
	dst.symbolicFaults(k)
	n := 1 + vChoose("workers", 2)
	err := ChopFile(context.Background(), name, idx.Chunks, dst, n, NullProgressBar{})
	vCover("returned")
	if err == nil {
		vCover("success")
		verifAllStored(dst, idx, "ChopFile")
	}
	// a failure that a worker observed must be reported; without one the operation succeeds
	if dst.observed {
		vAssert(err != nil, "ChopFile reported success although a store operation failed")
	} else {
		vAssert(err == nil, "ChopFile failed although no store operation failed")
	}
}

func VerifC06_Copy() {
	k := 2 + vChoose("chunks", 2)
	_, _, idx, src := verifSymBlob(k)
	src.yield = true
	dst := &verifStore{yield: true}
	var ids []ChunkID
	for _, c := range idx.Chunks {
		ids = append(ids, c.ID)
	}
	dst.symbolicFaults(k)
	src.useAt, src.failHasAt, src.failPutAt = true, -1, -1
	src.failGetAt = vInt("src-fail-get-at")
	vAssume(src.failGetAt >= -1 && src.failGetAt < k)
	n := 1 + vChoose("workers", 2)
	err := Copy(context.Background(), ids, src, dst, n, NullProgressBar{})
	vCover("returned")
	if err == nil {
		vCover("success")
		verifAllStored(dst, idx, "Copy")
	}
	if dst.observed || src.observed {
		vAssert(err != nil, "Copy reported success although a store operation failed")
	} else {
		vAssert(err == nil, "Copy failed although no store operation failed")
	}
}

func VerifC06_ChunkStream() {
	data := verifByteStream()
	// make the stream repeat so that duplicate chunks race through the processed-ID cache
	if vChoose("repetitive", 2) == 1 {
		for c := range data {
			data[c] = byte(c % 3)
		}
	}
	c, err := NewChunker(bytes.NewReader(data), 48, 64, 72)
	if err != nil {
		panic(err)
	}
	dst := &verifStore{yield: true}
	dst.symbolicFaults(3)
	n := 1 + vChoose("workers", 2)
	idx, err := ChunkStream(context.Background(), c, dst, n)
	vCover("returned")
	if err == nil {
		vCover("success")
		vAssert(idx.Length() == int64(len(data)), "index does not cover the input")
		var pos uint64
		for _, ch := range idx.Chunks {
			vAssert(ch.Start == pos, "chunks are not contiguous / in stream order")
			vAssert(Digest.Sum(data[ch.Start:ch.Start+ch.Size]) == ch.ID, "index entry does not hash to its range")
			pos += ch.Size
		}
		verifAllStored(dst, idx, "ChunkStream")
	}
	if dst.observed {
		vAssert(err != nil, "ChunkStream reported success although a store operation failed")
	} else {
		vAssert(err == nil, "ChunkStream failed although no store operation failed")
	}
}

// VerifC06_LocalStores: Copy / ChopFile into real local stores (model file system) for every
// combination of source and target compression: after success every chunk can be read back,
// valid, from the target.
func VerifC06_LocalStores() {
	vSchedFixed(true)
	vPreempt(0)
	srcUnc := vChoose("source-uncompressed", 2) == 1
	dstUnc := vChoose("target-uncompressed", 2) == 1
	root := vTempDir()
	os.Mkdir(root+"/src", 0755)
	os.Mkdir(root+"/dst", 0755)
	src, _ := NewLocalStore(root+"/src", StoreOptions{Uncompressed: srcUnc})
	dst, _ := NewLocalStore(root+"/dst", StoreOptions{Uncompressed: dstUnc})
	blob := []byte{0x61, 0x62, 0x63}
	os.WriteFile(root+"/blob", blob, 0644)
	idx := Index{Index: FormatIndex{FeatureFlags: CaFormatSHA512256, ChunkSizeMin: 1, ChunkSizeAvg: 1, ChunkSizeMax: 2}}
	var ids []ChunkID
	for _, r := range [][2]int{{0, 2}, {2, 3}} {
		c := NewChunk(blob[r[0]:r[1]])
		idx.Chunks = append(idx.Chunks, IndexChunk{ID: c.ID(), Start: uint64(r[0]), Size: uint64(r[1] - r[0])})
		ids = append(ids, c.ID())
	}
	var err error
	if vChoose("operation", 2) == 0 {
		err = ChopFile(context.Background(), root+"/blob", idx.Chunks, src, 1, NullProgressBar{})
		vAssert(err == nil, "ChopFile into a local store failed")
		err = Copy(context.Background(), ids, src, dst, 1, NullProgressBar{})
	} else {
		err = ChopFile(context.Background(), root+"/blob", idx.Chunks, dst, 1, NullProgressBar{})
	}
	vCover("returned")
	vAssert(err == nil, "bulk write into a healthy local store failed")
	if err == nil {
		for k, c := range idx.Chunks {
			got, gerr := dst.GetChunk(c.ID)
			vAssert(gerr == nil, "bulk write reported success but a chunk cannot be read back, valid, from the target store")
			if gerr == nil {
				b, _ := got.Data()
				vAssert(string(b) == string(blob[c.Start:c.Start+c.Size]), "chunk read back from the target differs")
			}
			_ = k
		}
	}
}

// Success also means complete when the job is cancelled part-way (the harness bodies are C07's:
// a goroutine cancels the context at any scheduling point; nil => every chunk is in the store /
// the index covers the input).
func VerifC06_ChopFileCancelled()    { VerifC07_ChopFile() }
func VerifC06_CopyCancelled()        { VerifC07_Copy() }
func VerifC06_ChunkStreamCancelled() { VerifC07_ChunkStream() }

// VerifC06_ChopStale: the file given to chop (or the store phase of make) differs from the index
// in one byte (a newer version of the file, or a stale index): success still means that every
// chunk of the index reads back valid from the store - bytes that do not hash to an ID are not
// stored under it.
func VerifC06_ChopStale() {
	k := 2
	name, blob, idx, _ := verifSymBlob(k)
	changed := append([]byte(nil), blob...)
	j := vChoose("changed-byte", k)
	changed[j] ^= vU8("change")
	os.WriteFile(name, changed, 0644)
	dst := &verifStore{}
	n := 1 + vChoose("workers", 2)
	err := ChopFile(context.Background(), name, idx.Chunks, dst, n, NullProgressBar{})
	vCover("returned")
	if err == nil {
		vCover("success")
		verifAllStored(dst, idx, "ChopFile")
	}
}

// VerifC06_LocalStoreDamaged: the target is a real local store in which the prefix directory of
// one chunk is not a directory (a stray file of that name): the chunk cannot be stored there, so
// chop / copy must fail - the store must not be taken to hold the chunk already.
func VerifC06_LocalStoreDamaged() {
	vSchedFixed(true)
	vPreempt(0)
	unc := vChoose("uncompressed", 2) == 1
	root := vTempDir()
	os.Mkdir(root+"/dst", 0755)
	dst, _ := NewLocalStore(root+"/dst", StoreOptions{Uncompressed: unc})
	blob := []byte{0x61, 0x62}
	os.WriteFile(root+"/blob", blob, 0644)
	idx := Index{Index: FormatIndex{FeatureFlags: CaFormatSHA512256, ChunkSizeMin: 1, ChunkSizeAvg: 1, ChunkSizeMax: 1}}
	src := &verifStore{}
	var ids []ChunkID
	for c := 0; c < 2; c++ {
		id := src.add(blob[c : c+1])
		idx.Chunks = append(idx.Chunks, IndexChunk{ID: id, Start: uint64(c), Size: 1})
		ids = append(ids, id)
	}
	victim := vChoose("blocked-chunk", 2)
	d, _ := dst.nameFromID(ids[victim])
	os.WriteFile(d, []byte("not a directory"), 0644)
	var err error
	if vChoose("operation", 2) == 0 {
		err = ChopFile(context.Background(), root+"/blob", idx.Chunks, dst, 1, NullProgressBar{})
	} else {
		err = Copy(context.Background(), ids, src, dst, 1, NullProgressBar{})
	}
	vCover("returned")
	if err == nil {
		for _, id := range ids {
			_, gerr := dst.GetChunk(id)
			vAssert(gerr == nil, "success reported although a chunk of the index cannot be read back from the target store")
		}
	}
	vAssert(err != nil, "success reported although one chunk's directory cannot be created")
}
