package desync

// C11: store chains follow their documented routing, caching and failover policy.

import (
	"errors"
	"sync"
)

const (
	mValid = iota
	mMissing
	mInvalid
	mError
)

var verifMemberErr = errors.New("verif: member failure")

// verifMember answers every request with a fixed (solver-chosen) outcome.
type verifMember struct {
	name          string
	get, has, put int // outcomes
	gets, hass    int
	puts          int
	stored        []*Chunk
	closed        bool
	afterClose    bool
	yield         bool
	chunk         *Chunk
	failFrom      int // requests with index >= failFrom fail (-1: never)
	mu            sync.Mutex
}

func (m *verifMember) enter() {
	m.mu.Lock()
	if m.closed {
		m.afterClose = true
	}
	m.mu.Unlock()
	if m.yield {
		vYield()
	}
	m.mu.Lock()
	if m.closed {
		m.afterClose = true
	}
	m.mu.Unlock()
}

func (m *verifMember) GetChunk(id ChunkID) (*Chunk, error) {
	m.enter()
	m.mu.Lock()
	n := m.gets
	m.gets++
	m.mu.Unlock()
	if m.failFrom >= 0 && n >= m.failFrom {
		return nil, verifMemberErr
	}
	switch m.get {
	case mValid:
		if m.chunk == nil {
			m.chunk = NewChunk([]byte(m.name))
		}
		return m.chunk, nil
	case mMissing:
		return nil, ChunkMissing{id}
	case mInvalid:
		return nil, ChunkInvalid{ID: id}
	}
	return nil, verifMemberErr
}

func (m *verifMember) HasChunk(id ChunkID) (bool, error) {
	m.enter()
	m.mu.Lock()
	n := m.hass
	m.hass++
	m.mu.Unlock()
	if m.failFrom >= 0 && n >= m.failFrom {
		return false, verifMemberErr
	}
	switch m.has {
	case mValid:
		return true, nil
	case mMissing:
		return false, nil
	}
	return false, verifMemberErr
}

func (m *verifMember) StoreChunk(c *Chunk) error {
	m.enter()
	m.puts++
	if m.put != mValid {
		return verifMemberErr
	}
	m.stored = append(m.stored, c)
	return nil
}

func (m *verifMember) Close() error   { m.mu.Lock(); m.closed = true; m.mu.Unlock(); return nil }
func (m *verifMember) String() string { return m.name }

// read-only variant (no StoreChunk)
type verifROMember struct{ *verifMember }

func (m verifROMember) StoreChunkNot() {}

// verifSymChoice is a symbolic integer in [0, n): branches on it are decided by the solver.
func verifSymChoice(name string, n int) int {
	x := vInt(name)
	vAssume(x >= 0 && x < n)
	return x
}

func verifIsMissing(err error) bool { _, ok := err.(ChunkMissing); return ok }

func VerifC11_Router() {
	n := 2 + vChoose("members", 2)
	var ms []*verifMember
	var stores []Store
	for k := 0; k < n; k++ {
		m := &verifMember{name: string(rune('a' + k)), get: verifSymChoice("get-outcome", 4), has: verifSymChoice("has-outcome", 3), failFrom: -1}
		ms = append(ms, m)
		stores = append(stores, m)
	}
	r := NewStoreRouter(stores...)
	id := verifID(1)
	c, err := r.GetChunk(id)
	vCover("router-get")
	// reference: outcome of the first member that is not "missing"
	first := -1
	for k, m := range ms {
		if m.get != mMissing {
			first = k
			break
		}
	}
	if first < 0 {
		vAssert(c == nil && verifIsMissing(err), "router: all members lack the chunk but the result is not ChunkMissing")
	} else {
		if ms[first].get == mValid {
			vAssert(err == nil && c == ms[first].chunk, "router: a member has the chunk and earlier members merely lack it, but it was not returned")
		} else {
			vAssert(err != nil && !verifIsMissing(err) && c == nil, "router: a member failure was masked (reported as missing or success)")
		}
		for k := first + 1; k < n; k++ {
			vAssert(ms[k].gets == 0, "router: a member behind the deciding one was queried")
		}
	}
	h, err := r.HasChunk(id)
	firstH := -1
	for k, m := range ms {
		if m.has != mMissing {
			firstH = k
			break
		}
	}
	if firstH < 0 {
		vAssert(!h && err == nil, "router HasChunk: nobody has it")
	} else if ms[firstH].has == mValid {
		vAssert(h && err == nil, "router HasChunk: a member has the chunk")
	} else {
		vAssert(err != nil && !h, "router HasChunk: failure masked")
	}
}

func VerifC11_Cache() {
	local := &verifMember{name: "local", get: verifSymChoice("local-get", 4), has: verifSymChoice("local-has", 3), put: verifSymChoice("local-put", 2) * mError, failFrom: -1}
	up := &verifMember{name: "upstream", get: verifSymChoice("up-get", 4), has: verifSymChoice("up-has", 3), failFrom: -1}
	repair := vChoose("repair", 2) == 1
	var l WriteStore = local
	if repair {
		l = NewRepairableCache(local)
	}
	c := NewCache(up, l)
	id := verifID(2)
	ch, err := c.GetChunk(id)
	vCover("cache-get")
	localMiss := local.get == mMissing || (repair && local.get == mInvalid)
	switch {
	case local.get == mValid:
		vAssert(err == nil && ch == local.chunk, "cache: cached chunk not served")
		vAssert(up.gets == 0, "cache: upstream touched although the chunk is cached")
	case localMiss:
		vAssert(up.gets == 1, "cache: miss did not go upstream exactly once")
		if up.get == mValid {
			vAssert(local.puts == 1, "cache: miss did not fill the cache")
			if local.put == mValid {
				vAssert(err == nil && ch == up.chunk, "cache: upstream chunk not returned after a miss")
				vAssert(len(local.stored) == 1 && local.stored[0] == up.chunk, "cache: wrong chunk written to the cache")
			} else {
				vAssert(err != nil, "cache: failed cache write not reported")
			}
		} else {
			vAssert(err != nil && local.puts == 0, "cache: upstream failure masked or cached")
			if up.get == mMissing {
				vAssert(verifIsMissing(err), "cache: missing upstream chunk not reported as missing")
			} else {
				vAssert(!verifIsMissing(err), "cache: upstream failure reported as missing")
			}
		}
	default: // local error (or invalid without repair)
		vAssert(err != nil && !verifIsMissing(err), "cache: local failure masked")
		vAssert(up.gets == 0, "cache: upstream queried after a local failure")
	}
	h, err := c.HasChunk(id)
	switch local.has {
	case mValid:
		vAssert(h && err == nil && up.hass == 0, "cache HasChunk: local hit")
	case mMissing:
		vAssert(up.hass == 1, "cache HasChunk: miss goes upstream")
		vAssert(h == (up.has == mValid) && (err != nil) == (up.has == mInvalid), "cache HasChunk: upstream answer not passed on")
	default:
		vAssert(err != nil, "cache HasChunk: local failure masked")
	}
}

// VerifC11_FailoverSeq: a history of requests against members that are healthy, lack the
// chunk, or start failing at request number k.
func VerifC11_FailoverSeq() {
	n := 2 + vChoose("members", 2)
	var ms []*verifMember
	var stores []Store
	anyHealthy := false
	for k := 0; k < n; k++ {
		m := &verifMember{name: string(rune('a' + k)), failFrom: -1}
		switch verifSymChoice("health", 4) {
		case 0: // healthy, has the chunk
			anyHealthy = true
		case 1: // healthy, lacks the chunk
			m.get, m.has = mMissing, mMissing
			anyHealthy = true
		case 2: // fails from request k on
			m.failFrom = verifSymChoice("fail-from", 3)
		case 3:
			m.failFrom = 0
		}
		ms = append(ms, m)
		stores = append(stores, m)
	}
	g := NewFailoverGroup(stores...)
	id := verifID(3)
	nops := 3
	for op := 0; op < nops; op++ {
		before := 0
		for _, m := range ms {
			before += m.gets + m.hass
		}
		activeBefore := g.active
		isGet := vChoose("op", 2) == 0
		var err error
		var c *Chunk
		if isGet {
			c, err = g.GetChunk(id)
		} else {
			_, err = g.HasChunk(id)
		}
		vCover("failover-op")
		after := 0
		for _, m := range ms {
			after += m.gets + m.hass
		}
		vAssert(after-before <= n, "failover: more attempts than members")
		if anyHealthy {
			vAssert(err == nil || verifIsMissing(err), "failover: request failed although a member is healthy")
		}
		if err == nil && isGet {
			vAssert(c != nil, "failover: success without a chunk")
		}
		if g.active != activeBefore {
			vAssert(after-before >= 2 || err != nil, "failover: active member changed without an observed failure")
		}
	}
}

// VerifC11_FailoverConc: two concurrent requests.
func VerifC11_FailoverConc() {
	vPreempt(2)
	n := 2 + vChoose("members", 2)
	var ms []*verifMember
	var stores []Store
	anyHealthy := false
	for k := 0; k < n; k++ {
		m := &verifMember{name: string(rune('a' + k)), failFrom: -1, yield: true}
		if verifSymChoice("healthy", 2) == 1 {
			anyHealthy = true
		} else {
			m.failFrom = 0
		}
		ms = append(ms, m)
		stores = append(stores, m)
	}
	g := NewFailoverGroup(stores...)
	g.active = vChoose("initially-active", n)
	id := verifID(4)
	var wg sync.WaitGroup
	errs := make([]error, 2)
	for r := 0; r < 2; r++ {
		r := r
		wg.Add(1)
		go func() {
			defer wg.Done()
			_, errs[r] = g.GetChunk(id)
		}()
	}
	wg.Wait()
	vCover("both-returned")
	if anyHealthy {
		vAssert(errs[0] == nil && errs[1] == nil, "failover: a concurrent request failed although a member is healthy")
	}
	total := 0
	for _, m := range ms {
		total += m.gets
	}
	vAssert(total <= 2*n, "failover: more attempts than members per request")
}

// VerifC11_Swap: requests run concurrently with Swap; no request reaches a closed member.
func VerifC11_Swap() {
	vPreempt(2)
	old := &verifMember{name: "old", failFrom: -1, yield: true}
	nw := &verifMember{name: "new", failFrom: -1, yield: true}
	s := NewSwapWriteStore(old)
	id := verifID(5)
	var wg sync.WaitGroup
	errs := make([]error, 2)
	for r := 0; r < 2; r++ {
		r := r
		wg.Add(1)
		go func() {
			defer wg.Done()
			if r == 0 {
				_, errs[r] = s.GetChunk(id)
			} else {
				errs[r] = s.StoreChunk(NewChunk([]byte{1}))
			}
		}()
	}
	var swapErr error
	wg.Add(1)
	go func() {
		defer wg.Done()
		swapErr = s.Swap(nw)
	}()
	wg.Wait()
	vCover("swap-done")
	vAssert(swapErr == nil, "swap of writable for writable refused")
	vAssert(errs[0] == nil && errs[1] == nil, "a request failed during the swap")
	vAssert(!old.afterClose, "a request ran against the old store after it was closed")
	vAssert(old.closed && !nw.closed, "old store not closed / new store closed")
	// write -> read-only is refused
	ro := verifROStore{}
	vAssert(s.Swap(ro) != nil, "writable store swapped for a read-only one")
	vAssert(!nw.closed, "refused swap closed the store")
}

type verifROStore struct{}

func (verifROStore) GetChunk(id ChunkID) (*Chunk, error) { return nil, ChunkMissing{id} }
func (verifROStore) HasChunk(id ChunkID) (bool, error)   { return false, nil }
func (verifROStore) Close() error                        { return nil }
func (verifROStore) String() string                      { return "ro" }

// VerifC11_ChainRecovers: the outermost layers of the chain the chunk server builds
// (de-duplication queue over a router over a member) asked twice for the same chunk, the member
// failing or missing the chunk on the first request only (solver's choice): the second request
// asks the member again and delivers - a finished request's failure is not replayed.
func VerifC11_ChainRecovers() {
	st := &verifStore{}
	id := verifID(0x11)
	first := vChoose("first-outcome", 3) // 0 ok, 1 store failure, 2 missing
	if first == 1 {
		st.failGet = map[int]bool{0: true}
	}
	if first != 2 {
		st.entries = append(st.entries, verifEntry{id: id, data: []byte{0x61}})
	}
	chain := NewDedupQueue(NewStoreRouter(st))
	_, err1 := chain.GetChunk(id)
	vCover("first-returned")
	if first == 0 {
		vAssert(err1 == nil, "healthy chain failed")
	} else {
		vAssert(err1 != nil, "failure not reported")
	}
	if first == 2 {
		st.entries = append(st.entries, verifEntry{id: id, data: []byte{0x61}}) // the chunk arrives upstream
	}
	c, err2 := chain.GetChunk(id)
	vAssert(err2 == nil && c != nil, "the chain keeps failing after the member recovered (a finished request's error was replayed?)")
	vAssert(st.gets == 2, "the second request did not reach the member")
}
