package desync

// C01 (kernel): block-aligned clone with head/tail copy covers exactly the requested
// range, for full 64-bit offsets and real block sizes.  (engine-only: the I/O helpers are
// replaced by a recorder so the arithmetic stays symbolic)

type verifPiece struct{ clone bool; src, n, dst uint64 }

func verifPieces() []verifPiece {
	log := vIOLog()
	var out []verifPiece
	for k := 0; k+3 < len(log); k += 4 {
		out = append(out, verifPiece{log[k] == 1, log[k+1], log[k+2], log[k+3]})
	}
	return out
}

// verifTiles: the recorded pieces, ordered by call (head copy, tail copy, clone(s)), cover
// [dst, dst+n) exactly once with a constant src-dst delta and only aligned clones.
func verifTiles(ps []verifPiece, src, dst, n, bs uint64, selfSrc bool) {
	var total uint64
	for _, p := range ps {
		// one obligation per fact keeps each query small
		vAssert(p.n <= n, "a piece is longer than the segment (unsigned wrap)")
		vAssert(vAnd(p.dst >= dst, p.dst-dst <= n-p.n), "a piece lies outside the segment")
		if !selfSrc {
			vAssert(p.src-p.dst == src-dst, "a piece reads from a different displacement than the segment")
		}
		if p.clone {
			vAssert(vAnd(p.n > 0, vAnd(p.n%bs == 0, p.dst%bs == 0)), "a clone is empty or not block aligned in the target")
			if !selfSrc {
				vAssert(p.src%bs == 0, "a clone is not block aligned in the source")
			}
		}
		total += p.n
	}
	vAssert(total == n, "the pieces do not add up to the segment length")
	// pairwise disjoint (with the sum check: exact cover)
	dis := true
	for a := 0; a < len(ps); a++ {
		for b := a + 1; b < len(ps); b++ {
			dis = vAnd(dis, vOr(vOr(ps[a].n == 0, ps[b].n == 0), vOr(ps[a].dst+ps[a].n <= ps[b].dst, ps[b].dst+ps[b].n <= ps[a].dst)))
		}
	}
	vAssert(dis, "two pieces overlap")
}

func VerifC01_CloneFileSeed_E() {
	bs := []uint64{512, 4096, 65536}[vChoose("blocksize", 3)]
	src, dst, n := vU64("srcOffset"), vU64("dstOffset"), vU64("length")
	vAssume(src < 1<<40 && dst < 1<<40 && n > 0 && n < 1<<40)
	seg := &fileSeedSegment{file: "seed", canReflink: true, chunks: []IndexChunk{{Start: src, Size: n}}}
	vRecordIO(true)
	_, _, err := seg.clone(nil, nil, src, n, dst, bs)
	vCover("clone-returned")
	if err != nil {
		vAssert(src%bs != dst%bs, "clone refused although the ranges are aligned with each other")
		return
	}
	verifTiles(verifPieces(), src, dst, n, bs, false)
}

func VerifC01_CloneNullSeed_E() {
	vUnwind(8)
	bs := []uint64{512, 4096, 65536}[vChoose("blocksize", 3)] // 64k blocks: head and tail copies of up to 65535 zero bytes
	dst, n := vU64("dstOffset"), vU64("length")
	vAssume(dst < 1<<40 && n > 0 && n < 4*bs) // at most 4 clone calls
	s := &nullChunkSection{from: 0, to: n, canReflink: true}
	vRecordIO(true)
	_, _, err := s.clone(nil, dst, n, bs)
	vCover("clone-returned")
	vAssert(err == nil, "null clone failed")
	ps := verifPieces()
	for k := range ps {
		ps[k].src = 0
	}
	verifTiles(ps, 0, dst, n, bs, true)
}
