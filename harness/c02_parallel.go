package desync

// C02 (orchestration): the index produced by parallel file chunking equals the
// single-stream result for every worker count and every goroutine interleaving.
// Data is concrete here (a family of byte strings with zero runs at solver-enumerated
// alignments); the rule "where a cut falls" for symbolic data is VerifC02_Next_E.

import (
	"bytes"
	"context"
	"os"
)

func verifPattern(size, zeroAt, zeroLen int, repetitive bool) []byte {
	b := make([]byte, size)
	x := uint32(2463534242)
	for i := range b {
		x ^= x << 13
		x ^= x >> 17
		x ^= x << 5
		b[i] = byte(x >> 11)
		if repetitive {
			b[i] = byte(i % 5)
		}
		if i >= zeroAt && i < zeroAt+zeroLen {
			b[i] = 0
		}
	}
	return b
}

func verifSequentialIndex(data []byte, min, avg, max uint64) []IndexChunk {
	c, err := NewChunker(bytes.NewReader(data), min, avg, max)
	if err != nil {
		panic(err)
	}
	var out []IndexChunk
	for {
		start, b, err := c.Next()
		if err != nil {
			panic(err)
		}
		if len(b) == 0 {
			return out
		}
		out = append(out, IndexChunk{Start: start, Size: uint64(len(b)), ID: Digest.Sum(b)})
	}
}

func VerifC02_ParallelFile() {
	vFSYield(false) // every worker reads through its own file handle of a file nobody writes
	sizes := []int{0, 73, 217, 300}
	zeroAts := []int{0, 72, 100}
	zeroLens := []int{0, 150, 290}
	maxN := 3
	if vTier() > 0 {
		sizes = []int{0, 1, 47, 48, 72, 73, 144, 145, 150, 216, 217, 300, 432, 433}
		zeroAts = []int{0, 1, 10, 71, 72, 73, 100, 144}
		zeroLens = []int{0, 72, 144, 150, 216, 290, 432}
		maxN = 3
	}
	size := sizes[vChoose("size", len(sizes))]
	zeroAt := zeroAts[vChoose("zero-at", len(zeroAts))]
	zeroLen := zeroLens[vChoose("zero-len", len(zeroLens))]
	rep := false
	if zeroLen == 0 {
		vAssume(zeroAt == 0) // no zero run: its position is irrelevant
		rep = vChoose("repetitive", 2) == 1
	}
	n := 1 + vChoose("workers", maxN)
	if vTier() == 0 && n == 3 {
		vAssume(size >= 217) // three workers need a file of at least 3*max bytes to all start
	}
	data := verifPattern(size, zeroAt, zeroLen, rep)
	dir := vTempDir()
	name := dir + "/in"
	os.WriteFile(name, data, 0644)
	want := verifSequentialIndex(data, 48, 64, 72)
	idx, _, err := IndexFromFile(context.Background(), name, n, 48, 64, 72, NullProgressBar{})
	vCover("returned")
	vAssert(err == nil, "IndexFromFile failed on a readable file")
	vAssert(len(idx.Chunks) == len(want), "parallel chunking produced a different number of chunks than the single stream")
	for k := 0; k < len(want) && k < len(idx.Chunks); k++ {
		vAssert(idx.Chunks[k] == want[k], "parallel chunking produced a different chunk (start, size or ID) than the single stream")
	}
	vAssert(idx.Length() == int64(size), "index does not cover the file")
	vAssert(idx.Index.ChunkSizeMin == 48 && idx.Index.ChunkSizeAvg == 64 && idx.Index.ChunkSizeMax == 72, "index does not record the chunking parameters")
	vAssert(idx.Index.FeatureFlags&CaFormatSHA512256 != 0, "index does not record the digest")
}

func VerifC02_StreamOrder() {
	sizes, maxN := []int{0, 100, 217}, 2
	if vTier() > 0 {
		sizes, maxN = []int{0, 100, 217, 300}, 3
	}
	size := sizes[vChoose("size", len(sizes))]
	rep := vChoose("repetitive", 2) == 1
	n := 1 + vChoose("workers", maxN)
	data := verifPattern(size, 120, 80, rep)
	want := verifSequentialIndex(data, 48, 64, 72)
	c, _ := NewChunker(bytes.NewReader(data), 48, 64, 72)
	st := &verifStore{yield: true}
	idx, err := ChunkStream(context.Background(), c, st, n)
	vCover("returned")
	vAssert(err == nil, "ChunkStream failed")
	vAssert(len(idx.Chunks) == len(want), "stream chunking lost or duplicated chunks")
	for k := 0; k < len(want) && k < len(idx.Chunks); k++ {
		vAssert(idx.Chunks[k] == want[k], "stream index is not in stream order / differs from the single stream result")
	}
}
