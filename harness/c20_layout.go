package desync

// C20: local chunk stores use casync's on-disk layout; both formats coexist.

import (
	"os"
)

const verifHex = "0123456789abcdef"

func verifHexOf(b []byte) string {
	out := make([]byte, 0, 2*len(b))
	for _, v := range b {
		out = append(out, verifHex[v>>4], verifHex[v&15])
	}
	return string(out)
}

// VerifC20_Name: for a symbolic chunk ID the store path is <base>/<hex[0:4]>/<hex><ext>.
func VerifC20_Name() {
	var id ChunkID
	copy(id[:], vBytes("id", 32))
	unc := vChoose("uncompressed", 2) == 1
	s := LocalStore{Base: "/store", Opt: StoreOptions{Uncompressed: unc}}
	dir, name := s.nameFromID(id)
	vCover("named")
	h := verifHexOf(id[:])
	ext := ".cacnk"
	if unc {
		ext = ""
	}
	vAssert(dir == "/store/"+h[0:4], "chunk directory is not named by the first four hex digits of the ID")
	vAssert(name == "/store/"+h[0:4]+"/"+h+ext, "chunk file is not <base>/<id[0:4]>/<id><ext>")
}

// VerifC20_Content: what StoreChunk leaves on disk for symbolic chunk data, and read-back.
func VerifC20_Content() {
	data := vBytes("data", 1+vChoose("len", 2))
	unc := vChoose("uncompressed", 2) == 1
	base := vTempDir()
	s, err := NewLocalStore(base, StoreOptions{Uncompressed: unc})
	vAssert(err == nil, "NewLocalStore")
	c := NewChunk(data)
	vAssert(s.StoreChunk(c) == nil, "StoreChunk failed")
	id := c.ID()
	_, p := s.nameFromID(id)
	b, err := os.ReadFile(p)
	vAssert(err == nil, "no file under the chunk's name after StoreChunk")
	vCover("stored")
	if unc {
		vAssert(vEqBytes(b, data), "uncompressed store does not hold the raw bytes")
	} else {
		z, _ := Compress(data)
		vAssert(vEqBytes(b, z), "compressed store does not hold one frame of the chunk")
	}
	back, err := s.GetChunk(id)
	vAssert(err == nil, "stored chunk cannot be read back")
	if err == nil {
		bb, _ := back.Data()
		vAssert(vEqBytes(bb, data), "read-back differs")
	}
	// the other format must not see it
	o, _ := NewLocalStore(base, StoreOptions{Uncompressed: !unc})
	has, err := o.HasChunk(id)
	vAssert(err == nil && !has, "a store configured for the other format sees this format's file")
	_, err = o.GetChunk(id)
	_, missing := err.(ChunkMissing)
	vAssert(missing, "a store configured for the other format serves this format's file")
}

// VerifC20_Coexist: both formats of one ID in one directory tree; each client only
// touches its own.
func VerifC20_Coexist() {
	data := []byte{0x11, 0x22}
	base := vTempDir()
	cs, _ := NewLocalStore(base, StoreOptions{})
	us, _ := NewLocalStore(base, StoreOptions{Uncompressed: true})
	c := NewChunk(data)
	id := c.ID()
	vAssert(cs.StoreChunk(c) == nil && us.StoreChunk(c) == nil, "storing both formats")
	_, cp := cs.nameFromID(id)
	_, up := us.nameFromID(id)
	vAssert(cp != up, "both formats share a file name")
	which := vChoose("remove-from", 2)
	if which == 0 {
		vAssert(cs.RemoveChunk(id) == nil, "remove")
		_, err := os.Stat(up)
		vAssert(err == nil, "removing the compressed chunk removed the uncompressed one")
		has, _ := cs.HasChunk(id)
		vAssert(!has, "compressed client still sees a chunk after removing it")
		has, _ = us.HasChunk(id)
		vAssert(has, "uncompressed client lost its chunk")
	} else {
		vAssert(us.RemoveChunk(id) == nil, "remove")
		_, err := os.Stat(cp)
		vAssert(err == nil, "removing the uncompressed chunk removed the compressed one")
		has, _ := us.HasChunk(id)
		vAssert(!has, "uncompressed client still sees a chunk after removing it")
		has, _ = cs.HasChunk(id)
		vAssert(has, "compressed client lost its chunk")
	}
	vCover("coexist")
}
